// Common pieces of the three simulators: seeded PRNG, hashing, plan-line
// tokeniser, progress cell shared with the parent, stats collector.
// Nothing in here reads a clock or any other ambient source of nondeterminism.
#ifndef VERIF_SIM_HPP
#define VERIF_SIM_HPP

#include <cinttypes>
#include <cmath>
#include <cstdint>
#include <cstdio>
#include <cstdlib>
#include <cstring>
#include <map>
#include <string>
#include <vector>

#include <csignal>
#include <fcntl.h>
#include <sys/mman.h>
#include <sys/time.h>
#include <unistd.h>

namespace sim {

inline uint64_t splitmix64(uint64_t& x)
{
   uint64_t z = (x += 0x9e3779b97f4a7c15ULL);
   z = (z ^ (z >> 30)) * 0xbf58476d1ce4e5b9ULL;
   z = (z ^ (z >> 27)) * 0x94d049bb133111ebULL;
   return z ^ (z >> 31);
}

/// seed of run `index` of engine `engine` in the batch `batch_seed`
inline uint64_t run_seed(uint64_t batch_seed, uint64_t engine, uint64_t index)
{
   uint64_t x = batch_seed * 0x100000001b3ULL + engine * 0x9e3779b97f4a7c15ULL;
   splitmix64(x);
   x ^= index * 0xd6e8feb86659fd93ULL;
   return splitmix64(x);
}

struct Rng {
   uint64_t s[4];
   explicit Rng(uint64_t seed = 1) { reseed(seed); }
   void reseed(uint64_t seed)
   {
      uint64_t x = seed;
      for (auto& v : s) v = splitmix64(x);
   }
   static uint64_t rotl(uint64_t x, int k) { return (x << k) | (x >> (64 - k)); }
   uint64_t next()
   {
      const uint64_t r = rotl(s[1] * 5, 7) * 9;
      const uint64_t t = s[1] << 17;
      s[2] ^= s[0]; s[3] ^= s[1]; s[1] ^= s[2]; s[0] ^= s[3];
      s[2] ^= t; s[3] = rotl(s[3], 45);
      return r;
   }
   /// uniform in [0, n)  (n > 0)
   uint64_t below(uint64_t n) { return n ? next() % n : 0; }
   /// uniform in [lo, hi]
   int64_t range(int64_t lo, int64_t hi) { return lo + (int64_t)below((uint64_t)(hi - lo + 1)); }
   double unit() { return (next() >> 11) * (1.0 / 9007199254740992.0); }
   double uniform(double lo, double hi) { return lo + (hi - lo) * unit(); }
   double loguniform(double lo, double hi) { return std::exp(uniform(std::log(lo), std::log(hi))); }
   bool chance(double p) { return unit() < p; }
   template <class T> const T& pick(const std::vector<T>& v) { return v[below(v.size())]; }
   /// geometric with given mean (>= 1)
   uint64_t geometric(double mean)
   {
      if (mean <= 1.0) return 1;
      double u = unit();
      if (u <= 0) u = 1e-300;
      double g = std::floor(std::log(u) / std::log(1.0 - 1.0 / mean));
      if (g > 1e15) g = 1e15;
      return 1 + (uint64_t)g;
   }
   /// index drawn according to weights
   size_t weighted(const std::vector<double>& w)
   {
      double tot = 0; for (double x : w) tot += x;
      double r = unit() * tot;
      for (size_t i = 0; i < w.size(); ++i) { if (r < w[i]) return i; r -= w[i]; }
      return w.size() - 1;
   }
};

struct Fnv {
   uint64_t h = 0xcbf29ce484222325ULL;
   void bytes(const void* p, size_t n)
   {
      const unsigned char* c = (const unsigned char*)p;
      for (size_t i = 0; i < n; ++i) { h ^= c[i]; h *= 0x100000001b3ULL; }
   }
   void u64(uint64_t v) { bytes(&v, sizeof v); }
   void str(const std::string& s) { bytes(s.data(), s.size()); u64(s.size()); }
   void dbl(double d) { uint64_t v; std::memcpy(&v, &d, 8); u64(v); }
};

inline uint64_t bits(double d) { uint64_t v; std::memcpy(&v, &d, 8); return v; }

/// exact text form of a double (hex float; nan/inf spelled out)
inline std::string dstr(double d)
{
   char b[64];
   if (std::isnan(d)) return std::signbit(d) ? "-nan" : "nan";
   if (std::isinf(d)) return d < 0 ? "-inf" : "inf";
   std::snprintf(b, sizeof b, "%a", d);
   return b;
}
inline double dparse(const std::string& s) { return std::strtod(s.c_str(), nullptr); }

inline std::vector<std::string> split(const std::string& line)
{
   std::vector<std::string> t;
   size_t i = 0;
   while (i < line.size()) {
      while (i < line.size() && (line[i] == ' ' || line[i] == '\t' || line[i] == '\r' || line[i] == '\n')) ++i;
      size_t j = i;
      while (j < line.size() && !(line[j] == ' ' || line[j] == '\t' || line[j] == '\r' || line[j] == '\n')) ++j;
      if (j > i) t.push_back(line.substr(i, j - i));
      i = j;
   }
   return t;
}

inline long long iparse(const std::string& s) { return std::strtoll(s.c_str(), nullptr, 0); }

/// JSON string escaping
inline std::string jesc(const std::string& s)
{
   std::string o;
   for (unsigned char c : s) {
      if (c == '"') o += "\\\"";
      else if (c == '\\') o += "\\\\";
      else if (c == '\n') o += "\\n";
      else if (c == '\r') o += "\\r";
      else if (c == '\t') o += "\\t";
      else if (c < 0x20 || c >= 0x7f) { char b[8]; std::snprintf(b, sizeof b, "\\u%04x", c); o += b; }
      else o += (char)c;
   }
   return o;
}

/// named counters, emitted as one JSON object
struct Stats {
   std::map<std::string, uint64_t> c;
   void add(const std::string& k, uint64_t n = 1) { c[k] += n; }
   std::string json() const
   {
      std::string o = "{";
      bool first = true;
      for (auto& kv : c) {
         if (!first) o += ",";
         first = false;
         o += "\"" + jesc(kv.first) + "\":" + std::to_string(kv.second);
      }
      return o + "}";
   }
   void clear() { c.clear(); }
};

/// Cell in a file shared with the parent: {run index, step, 2 spare u64, 128 byte label}.
/// Written with plain stores before every step so that a worker killed by a
/// sanitizer, abort() or a signal can be attributed to the exact run and step.
struct Progress {
   static constexpr size_t SIZE = 32 + 128;
   volatile uint64_t* cell = nullptr;
   uint64_t dummy[SIZE / 8] = {};
   void open(const char* path)
   {
      cell = dummy;
      if (!path || !*path) return;
      int fd = ::open(path, O_RDWR | O_CREAT, 0644);
      if (fd < 0) return;
      if (ftruncate(fd, SIZE) != 0) { ::close(fd); return; }
      void* p = mmap(nullptr, SIZE, PROT_READ | PROT_WRITE, MAP_SHARED, fd, 0);
      ::close(fd);
      if (p != MAP_FAILED) cell = (volatile uint64_t*)p;
   }
   void set(uint64_t run, uint64_t step, const char* label = nullptr)
   {
      if (!cell) cell = dummy;
      cell[0] = run; cell[1] = step;
      if (label) {
         volatile char* l = (volatile char*)(cell + 4);
         size_t i = 0;
         for (; i < 127 && label[i]; ++i) l[i] = label[i];
         l[i] = 0;
      }
   }
};

/// CPU-time watchdog of an in-process worker: a run (one program execution / one API history) that burns more than
/// `seconds` of CPU time (user + system, ITIMER_PROF) ends the worker with status 80, which the parent attributes to
/// the run and step in the progress cell ("cpu_watchdog").  It stands behind the logical step budgets for loops
/// that never reach an instrumented step.  CPU time, not wall time: a loaded machine does not trip it.
struct Watchdog {
   static void on_timer(int) { static const char m[] = "watchdog: CPU-time limit of one run exceeded\n"; (void)!::write(2, m, sizeof m - 1); _exit(80); }
   static unsigned& limit() { static unsigned s = [] { const char* e = std::getenv("VERIF_WATCHDOG_S"); const int v = e ? std::atoi(e) : 0; return (unsigned)(v > 0 ? v : 20); }(); return s; }
   static void arm()
   {
      static bool installed = false;
      if (!installed) { struct sigaction sa; std::memset(&sa, 0, sizeof sa); sa.sa_handler = on_timer; sigaction(SIGPROF, &sa, nullptr); installed = true; }
      struct itimerval it; std::memset(&it, 0, sizeof it); it.it_value.tv_sec = limit(); setitimer(ITIMER_PROF, &it, nullptr);
   }
   /// stops the timer; returns the CPU milliseconds the run used
   static uint64_t disarm()
   {
      struct itimerval zero, old; std::memset(&zero, 0, sizeof zero); std::memset(&old, 0, sizeof old);
      setitimer(ITIMER_PROF, &zero, &old);
      const uint64_t left_ms = (uint64_t)old.it_value.tv_sec * 1000 + (uint64_t)old.it_value.tv_usec / 1000;
      const uint64_t lim_ms = (uint64_t)limit() * 1000;
      return left_ms > lim_ms ? 0 : lim_ms - left_ms;
   }
};

inline bool read_line(std::string& out, FILE* f = stdin)
{
   out.clear();
   int ch;
   while ((ch = std::fgetc(f)) != EOF) {
      if (ch == '\n') return true;
      out += (char)ch;
   }
   return !out.empty();
}

inline std::vector<std::string> read_plan_file(const char* path)
{
   std::vector<std::string> lines;
   FILE* f = std::fopen(path, "r");
   if (!f) return lines;
   std::string l;
   while (read_line(l, f)) if (!l.empty()) lines.push_back(l);
   std::fclose(f);
   return lines;
}

} // namespace sim

#endif
