"""Parent side of the simulators: persistent worker processes, attribution of
worker deaths to the exact run/step, candidate confirmation, minimisation
(ddmin over explicit op lines), replay files, evidence files."""
import json
import os
import queue
import select
import struct
import subprocess
import sys
import tempfile
import threading
import time

VERIF = os.path.dirname(os.path.dirname(os.path.abspath(__file__)))
RUNDIR = os.path.join(VERIF, ".build", "run")
# evidence and replay files belong to /repo itself; runs against a scratch copy (VERIF_REPO, used by the
# self-tests) write theirs under .build/scratch so that the committed evidence is never overwritten
OUT = VERIF if os.environ.get("VERIF_REPO", "/repo") == "/repo" else os.path.join(VERIF, ".build", "scratch")
PROGRESS_SIZE = 32 + 128
MAX_DEATHS_PER_BATCH = 150
# runs that end in a time budget (logical step budget, CPU watchdog, stall) are expensive by construction: once a
# check has seen this many of them the tree is known to violate, exploration stops and the candidates are processed
MAX_HANGS_PER_CHECK = 10
HANG_CAUSES = ("hang", "cpu_watchdog", "exit79", "signal24")
_hangs = {"n": 0}


def is_hang_sig(sig):
    return sig.startswith("death:") and sig.rsplit(":", 1)[-1] in HANG_CAUSES


def saturated():
    return _hangs["n"] >= MAX_HANGS_PER_CHECK


def cause_of(rc):
    if rc == 77:
        return "asan"
    if rc == 78:
        return "ubsan"
    if rc == 80:
        return "cpu_watchdog"
    if rc == 75:
        return "valgrind"
    if rc is None:
        return "hang"
    if rc < 0:
        return "signal%d" % (-rc)
    return "exit%d" % rc


def read_progress(path):
    try:
        b = open(path, "rb").read(PROGRESS_SIZE)
        run, step = struct.unpack("<QQ", b[:16])
        label = b[32:].split(b"\0")[0].decode(errors="replace")
        return run, step, label
    except Exception:
        return 0, 0, ""


class Worker:
    def __init__(self, binary, wid, env=None, tag="w", args=None):
        os.makedirs(RUNDIR, exist_ok=True)
        self.binary = binary
        self.wid = wid
        self.env = dict(os.environ)
        if env:
            self.env.update(env)
        self.progress = os.path.join(RUNDIR, "%s-%s-%d-%d.progress" % (os.path.basename(binary), tag, os.getpid(), wid))
        self.args = list(args()) if callable(args) else list(args or [])
        self.proc = None
        self.errfile = None
        self.start()

    def start(self):
        try:
            os.unlink(self.progress)
        except OSError:
            pass
        self.errfile = tempfile.TemporaryFile()
        self.proc = subprocess.Popen([self.binary, self.progress] + self.args, stdin=subprocess.PIPE, stdout=subprocess.PIPE,
                                     stderr=self.errfile, env=self.env, bufsize=0)
        self.buf = b""

    def send(self, line):
        try:
            self.proc.stdin.write((line + "\n").encode())
            self.proc.stdin.flush()
            return True
        except (BrokenPipeError, OSError):
            return False

    def readline(self, timeout):
        """returns a str line, None on EOF (death), or '' on timeout"""
        deadline = time.time() + timeout
        while b"\n" not in self.buf:
            left = deadline - time.time()
            if left <= 0:
                return ""
            r, _, _ = select.select([self.proc.stdout], [], [], min(left, 5.0))
            if not r:
                continue
            chunk = os.read(self.proc.stdout.fileno(), 1 << 16)
            if not chunk:
                return None
            self.buf += chunk
        line, self.buf = self.buf.split(b"\n", 1)
        return line.decode(errors="replace")

    def stderr_tail(self, n=4000):
        try:
            self.errfile.seek(0, 2)
            size = self.errfile.tell()
            self.errfile.seek(max(0, size - n))
            return self.errfile.read().decode(errors="replace")
        except Exception:
            return ""

    def kill(self):
        try:
            self.proc.kill()
        except Exception:
            pass
        try:
            self.proc.wait(timeout=10)
        except Exception:
            pass

    def close(self):
        try:
            self.send("QUIT")
            self.proc.stdin.close()
            self.proc.wait(timeout=10)
        except Exception:
            self.kill()
        try:
            os.unlink(self.progress)
        except OSError:
            pass


def command(worker, line, timeout=300, stall=120):
    """Send one command, collect lines until DONE.
    Returns (lines, death) where death is None or dict(rc, run, step, label, stderr)."""
    lines = []
    if not worker.send(line):
        rc = worker.proc.wait()
        run, step, label = read_progress(worker.progress)
        return lines, {"rc": rc, "run": run, "step": step, "label": label, "stderr": worker.stderr_tail()}
    t0 = time.time()
    last_prog = None
    last_change = time.time()
    while True:
        l = worker.readline(10.0)
        if l is None:
            rc = worker.proc.wait()
            run, step, label = read_progress(worker.progress)
            return lines, {"rc": rc, "run": run, "step": step, "label": label, "stderr": worker.stderr_tail()}
        if l == "":
            p = read_progress(worker.progress)
            if p != last_prog:
                last_prog = p
                last_change = time.time()
            if time.time() - last_change > stall or time.time() - t0 > timeout:
                run, step, label = p
                worker.kill()
                return lines, {"rc": None, "run": run, "step": step, "label": label, "stderr": worker.stderr_tail()}
            continue
        if l == "DONE":
            return lines, None
        lines.append(l)


def merge_stats(total, new):
    for k, v in new.items():
        if isinstance(v, dict):
            merge_stats(total.setdefault(k, {}), v)
        else:
            total[k] = total.get(k, 0) + v


def run_batch(binary, kind, seed, first, count, nworkers, env=None, chunk=200, extra="", deadline=None, stall=120, args=None, init_cmds=()):
    """Execute runs [first, first+count) of `kind` (RUNS/SWEEP/...) on persistent workers.
    Returns dict(stats, candidates[list of dict(run, sig)], hashes{run: hash}, executed, deaths)."""
    q = queue.Queue()
    i = first
    while i < first + count:
        n = min(chunk, first + count - i)
        q.put((i, n))
        i += n
    res = {"stats": {}, "candidates": [], "hashes": {}, "executed": 0, "deaths": 0, "notes": [], "stopped_early": False}
    lock = threading.Lock()
    if saturated():
        res["stopped_early"] = True
        return res

    def cmdline(a, n):
        if kind in ("RUNS", "LIGHT"):  # seeded kinds
            return "%s %d %d %d %s" % (kind, seed, a, n, extra)
        return "%s %d %d %s" % (kind, a, n, extra)

    def loop(wid):
        w = Worker(binary, wid, env, args=args)
        for ic in init_cmds:
            command(w, ic, timeout=60)
        ctx = []  # ranges (first, count) of runs this worker process has executed since it was (re)started
        try:
            while True:
                if deadline and time.time() > deadline:
                    return
                if res["deaths"] >= MAX_DEATHS_PER_BATCH or saturated():
                    res["stopped_early"] = True
                    return  # the candidates collected so far are enough; do not grind through a tree that dies on every run
                try:
                    a, n = q.get_nowait()
                except queue.Empty:
                    return
                while n > 0 and res["deaths"] < MAX_DEATHS_PER_BATCH and not saturated():
                    lines, death = command(w, cmdline(a, n), timeout=3600, stall=stall)
                    with lock:
                        for l in lines:
                            if l.startswith("CAND "):
                                kv = dict(x.split("=", 1) for x in l[5:].split(" ", 1))
                                # "ctx": what the same process had executed before this run (engines that execute
                                # many runs per process use it when a candidate does not reproduce on its own)
                                res["candidates"].append({"run": int(kv["run"]), "sig": kv["sig"], "ctx": list(ctx) + [(a, int(kv["run"]) - a)]})
                            elif l.startswith("HASH "):
                                kv = dict(x.split("=", 1) for x in l[5:].split())
                                res["hashes"][int(kv["run"])] = kv["hash"]
                            elif l.startswith("STATS "):
                                merge_stats(res["stats"], json.loads(l[6:]))
                            elif l.startswith("NOTE "):
                                if l not in res["notes"]:
                                    res["notes"].append(l)
                    if death is None:
                        with lock:
                            res["executed"] += n
                        ctx.append((a, n))
                        break
                    # the worker died (or hung) inside run death["run"]
                    r = death["run"]
                    if r < a or r >= a + n:
                        r = a
                    with lock:
                        res["deaths"] += 1
                        if cause_of(death["rc"]) in HANG_CAUSES:
                            _hangs["n"] += 1
                        res["candidates"].append({"run": r, "sig": "death:%s:%s" % (death["label"] or "?", cause_of(death["rc"])),
                                                  "stderr": death["stderr"][-3000:]})
                        res["executed"] += r - a + 1
                    w.kill()
                    w.start()
                    del ctx[:]
                    for ic in init_cmds:
                        command(w, ic, timeout=60)
                    n = a + n - (r + 1)
                    a = r + 1
        finally:
            w.close()

    th = [threading.Thread(target=loop, args=(k,)) for k in range(nworkers)]
    for t in th:
        t.start()
    for t in th:
        t.join()
    return res


def dump_plan(binary, cmd, env=None, args=None):
    w = Worker(binary, 900 + threading.get_ident() % 90, env, tag="d", args=args)
    try:
        lines, death = command(w, cmd, timeout=120)
    finally:
        w.close()
    return [l[3:] for l in lines if l.startswith("OP ")]


def exec_plan(binary, ops, env=None, timeout=300, header=None, args=None):
    """Run one explicit plan in a fresh process.  Returns dict(sig, hash, detail, trace)."""
    os.makedirs(RUNDIR, exist_ok=True)
    fd, path = tempfile.mkstemp(prefix="plan-", suffix=".txt", dir=RUNDIR)
    with os.fdopen(fd, "w") as f:
        for h in header or []:
            f.write("# %s\n" % h)
        for o in ops:
            f.write(o + "\n")
    w = Worker(binary, 500 + (os.getpid() + threading.get_ident()) % 400, env, tag="x%d" % (threading.get_ident() % 100000), args=args)
    try:
        lines, death = command(w, "EXEC " + path, timeout=timeout, stall=min(timeout, 120))
    finally:
        w.close()
        try:
            os.unlink(path)
        except OSError:
            pass
    out = {"sig": None, "hash": None, "detail": [], "trace": []}
    for l in lines:
        if l.startswith("RESULT "):
            kv = dict(x.split("=", 1) for x in l[7:].split(" ") if "=" in x)
            out["sig"] = kv.get("sig")
            out["hash"] = kv.get("hash")
            out["result"] = kv
        elif l.startswith("DETAIL "):
            out["detail"].append(l[7:])
        elif l.startswith("TRACE "):
            out["trace"].append(l[6:])
    if death is not None:
        out["sig"] = "death:%s:%s" % (death["label"] or "?", cause_of(death["rc"]))
        out["detail"].append("worker ended with %s at step %d" % (cause_of(death["rc"]), death["step"]))
        out["stderr"] = death["stderr"][-3000:]
        out["hash"] = "dead"
    return out


def exec_commands(binary, cmds, env=None, args=None, timeout=3600):
    """Send worker commands (e.g. the RUNS chunks a seeded worker executed since it started) to a fresh worker.
    Returns the set of (run, sig) candidates it reported, deaths included."""
    w = Worker(binary, 400 + (os.getpid() + threading.get_ident()) % 90, env, tag="c%d" % (threading.get_ident() % 100000), args=args)
    found = set()
    try:
        for c in cmds:
            lines, death = command(w, c, timeout=timeout, stall=300)
            for l in lines:
                if l.startswith("CAND "):
                    kv = dict(x.split("=", 1) for x in l[5:].split(" ", 1))
                    found.add((int(kv["run"]), kv["sig"]))
            if death is not None:
                found.add((death["run"], "death:%s:%s" % (death["label"] or "?", cause_of(death["rc"]))))
                break
    finally:
        w.close()
    return found


def ddmin(ops, test, budget=400):
    """Greedy delta debugging over a list: returns a smaller list for which test(list) is True.
    test is only called on candidates; the input is assumed to satisfy it."""
    calls = [0]

    def t(x):
        calls[0] += 1
        return calls[0] <= budget and test(x)

    n = 2
    cur = list(ops)
    while len(cur) >= 2 and calls[0] < budget:
        size = max(1, len(cur) // n)
        chunks = [cur[i:i + size] for i in range(0, len(cur), size)]
        reduced = False
        for k in range(len(chunks)):
            cand = [x for j, c in enumerate(chunks) if j != k for x in c]
            if cand and t(cand):
                cur = cand
                n = max(n - 1, 2)
                reduced = True
                break
        if not reduced:
            if size == 1:
                break
            n = min(len(cur), n * 2)
    # single-element removal pass
    i = 0
    while i < len(cur) and len(cur) > 1 and calls[0] < budget:
        cand = cur[:i] + cur[i + 1:]
        if t(cand):
            cur = cand
        else:
            i += 1
    return cur, calls[0]


def clean_replays(prop):
    """replay files are outputs of the current run only"""
    d = os.path.join(OUT, "replays", prop)
    try:
        for f in os.listdir(d):
            os.unlink(os.path.join(d, f))
    except OSError:
        pass


def load_known_findings():
    p = os.path.join(VERIF, "known_findings.json")
    try:
        return json.load(open(p)).get("findings", [])
    except Exception:
        return []


def write_evidence(prop, ev):
    d = os.path.join(OUT, "evidence")
    os.makedirs(d, exist_ok=True)
    tmp = os.path.join(d, prop + ".json.tmp")
    with open(tmp, "w") as f:
        json.dump(ev, f, indent=1, sort_keys=True)
        f.write("\n")
    os.replace(tmp, os.path.join(d, prop + ".json"))


def same_violation(a, b):
    """two signatures name the same violation: equal, or both are deaths of the process in the same phase / function
    (how a corrupted process dies -- SIGSEGV, abort, sanitizer report, resource limit -- may vary between executions)"""
    if a == b:
        return True
    if a and b and a.startswith("death:") and b.startswith("death:"):
        pa, pb = a.split(":"), b.split(":")
        return len(pa) >= 3 and len(pb) >= 3 and pa[1] == pb[1] and not (is_hang_sig(a) != is_hang_sig(b))
    return False


def process_candidates(prop, engine, binary, cands, get_plan, env=None, header=None, max_report=12, min_budget=300,
                       exec_timeout=300, simplify=None, args=None, log=print, pin_first=False, context_plan=None,
                       fresh_process_is_truth=False, context_cmds=None):
    """Confirm, minimise and write replay files for candidate violations.
    Returns (violations[list of dict(sig, path)], known[list of dict], harness_errors[list of str])."""
    known = load_known_findings()
    open_known = [k for k in known if k.get("property") == prop and k.get("status") == "open"]
    by_sig = {}
    for c in cands:
        by_sig.setdefault(c["sig"], []).append(c)
    violations, known_hits, harness_errors = [], [], []
    for sig in sorted(by_sig):
        if len(violations) >= max_report:
            log("... further violation classes not processed (limit %d)" % max_report)
            break
        c = sorted(by_sig[sig], key=lambda x: x["run"])[0]
        plan = get_plan(c)
        hdr = header(c) if callable(header) else header
        r1 = exec_plan(binary, plan, env, timeout=exec_timeout, header=hdr, args=args)
        r2 = exec_plan(binary, plan, env, timeout=exec_timeout, header=hdr, args=args)
        needs_context = False
        if context_plan and r1["sig"] == r2["sig"] and r1["hash"] == r2["hash"] and r1["sig"] != sig and c.get("ctx"):
            # deterministic on its own, but different from what the worker saw: the run depends on what the same
            # process executed before it.  Re-execute it behind the last k runs of its worker, k growing.
            nprior = sum(n for _, n in c["ctx"])
            for k in (1, 4, 16, 64, 256, 1024, 4096, nprior):
                k = min(k, nprior)
                if k <= 0:
                    break
                cplan = context_plan(c, k)
                x1 = exec_plan(binary, cplan, env, timeout=exec_timeout, header=hdr, args=args)
                if x1["sig"] != sig:
                    if k == nprior:
                        break
                    continue
                x2 = exec_plan(binary, cplan, env, timeout=exec_timeout, header=hdr, args=args)
                if x2["sig"] == sig and x1["hash"] == x2["hash"]:
                    plan, r1, r2, needs_context = cplan, x1, x2, True
                    log("candidate %s (run %s) reproduces only behind %d earlier run(s) of the same process" % (sig, c["run"], k))
                break
        if context_cmds and not needs_context and r1["sig"] == r2["sig"] and r1["hash"] == r2["hash"] and r1["sig"] != sig and c.get("ctx"):
            # last resort: re-issue the very commands the candidate's worker process had executed since it started
            # (same plan generation, same allocations, same threads): exact by construction if the worker is deterministic
            cmds = context_cmds(c)
            hit = lambda cs: any(rn == c["run"] and same_violation(sg, sig) for rn, sg in exec_commands(binary, cs, env, args=args))
            if hit(cmds) and hit(cmds):
                k = 0
                while len(cmds) > 1 and k < 12:      # drop the oldest chunks while it still shows
                    k += 1
                    half = cmds[len(cmds) // 2:]
                    if hit(half):
                        cmds = half
                    elif hit(cmds[1:]):
                        cmds = cmds[1:]
                    else:
                        break
                rdir = os.path.join(OUT, "replays", prop)
                os.makedirs(rdir, exist_ok=True)
                safe = "".join(ch if ch.isalnum() or ch in "-_." else "_" for ch in sig)[:100]
                path = os.path.join(rdir, "%s-run%s.json" % (safe, c["run"]))
                with open(path, "w") as f:
                    json.dump({"property": prop, "engine": engine + "-cmds", "signature": sig, "run_index": c["run"], "seed": c.get("seed"), "commands": cmds,
                               "note": "reproduces only as part of the command sequence its worker process executed (depends on process history incl. heap layout); replay re-issues these commands to a fresh worker",
                               "occurrences_in_batch": len(by_sig[sig])}, f, indent=1)
                    f.write("\n")
                log("candidate %s (run %s) reproduces by re-issuing %d worker command(s)" % (sig, c["run"], len(cmds)))
                violations.append({"sig": sig, "path": path, "ops": len(cmds), "from_ops": len(context_cmds(c)), "count": len(by_sig[sig])})
                continue
        if fresh_process_is_truth and not needs_context and r1["sig"] == r2["sig"] and r1["hash"] == r2["hash"] and r1["sig"] == "OK":
            # the property speaks about one process per run: what a long-lived worker saw after thousands of earlier
            # runs, but a fresh process does not show (twice, identically), is an artefact of process reuse
            log("NOTE candidate %s (run %s) is not shown by a fresh process: artefact of process reuse, dropped" % (sig, c["run"]))
            continue
        deaths = sig.startswith("death:")
        if not same_violation(r1["sig"], sig) or not same_violation(r2["sig"], sig) or (r1["hash"] != r2["hash"] and not deaths):
            harness_errors.append("candidate %s (run %s) did not reproduce in a fresh process: got %s/%s hashes %s/%s; stderr of the original: %s" %
                                  (sig, c["run"], r1["sig"], r2["sig"], r1["hash"], r2["hash"], (c.get("stderr") or "")[-600:].replace("\n", " | ")))
            continue
        kf = [k for k in open_known if k.get("signature") == sig]
        if kf:
            known_hits.append({"sig": sig, "what": kf[0].get("description", sig), "count": len(by_sig[sig])})
            continue

        def test(ops):
            return same_violation(exec_plan(binary, ops, env, timeout=exec_timeout, header=hdr, args=args)["sig"], sig)

        if is_hang_sig(sig):
            min_budget_here = min(min_budget, 24)  # every re-run of a hanging plan costs a whole time budget
        else:
            min_budget_here = min_budget
        if pin_first and len(plan) > 1:
            # the first line is the plan's own header (e.g. the scheduler seed): never dropped
            rest, ncalls = ddmin(plan[1:], lambda ops: test([plan[0]] + ops), budget=min_budget_here)
            small = [plan[0]] + rest
        else:
            small, ncalls = ddmin(plan, test, budget=min_budget_here)
        if simplify:
            small = simplify(small, test)
        final = exec_plan(binary, small, env, timeout=exec_timeout, header=hdr, args=args)
        if not same_violation(final["sig"], sig):
            small = plan
            final = r1
        rdir = os.path.join(OUT, "replays", prop)
        os.makedirs(rdir, exist_ok=True)
        safe = "".join(ch if ch.isalnum() or ch in "-_." else "_" for ch in sig)[:100]
        path = os.path.join(rdir, "%s-run%s.json" % (safe, c["run"]))
        rep = {"property": prop, "engine": engine, "signature": sig, "run_index": c["run"], "seed": c.get("seed"),
               "kind": c.get("kind"), "header": hdr or [], "ops": small, "original_length": len(plan), "minimisation_reruns": ncalls,
               "needs_earlier_histories_in_the_same_process": needs_context,
               "detail": final.get("detail", []), "trace": final.get("trace", [])[-40:], "hash": final.get("hash"),
               "stderr": (final.get("stderr") or c.get("stderr") or "")[-3000:], "occurrences_in_batch": len(by_sig[sig])}
        with open(path, "w") as f:
            json.dump(rep, f, indent=1)
            f.write("\n")
        # the replay file itself must reproduce in a fresh process
        chk = replay_file(binary, path, env, exec_timeout, args=args)
        if not same_violation(chk["sig"], sig):
            harness_errors.append("replay file %s did not reproduce (%s instead of %s)" % (path, chk["sig"], sig))
            continue
        violations.append({"sig": sig, "path": path, "ops": len(small), "from_ops": len(plan), "count": len(by_sig[sig])})
    return violations, known_hits, harness_errors


def gate_candidate_difference(c_gate, c_main, get_plan, binary, env=None, args=None, exec_timeout=300, limit=6, log=print):
    """The determinism gate found different candidate sets for the same runs in two batches.  That is a harness fault
    only if a run is not a function of its plan: each differing run is executed twice in fresh processes; if those agree
    with each other, the difference between the batches comes from state the code under test carries from earlier runs
    of a worker process into later ones (handled per candidate by the context replay), not from the harness.
    Returns a list of harness error strings (empty = explained)."""
    a = set((c["run"], c["sig"]) for c in c_gate)
    b = set((c["run"], c["sig"]) for c in c_main)
    diff = sorted(a ^ b)
    errors = []
    for run, sig in diff[:limit]:
        plan = get_plan({"run": run, "sig": sig})
        x = exec_plan(binary, plan, env, timeout=exec_timeout, args=args)
        y = exec_plan(binary, plan, env, timeout=exec_timeout, args=args)
        if x["sig"] != y["sig"] or x["hash"] != y["hash"]:
            errors.append("run %s is not a function of its plan: two fresh executions gave %s/%s (hashes %s/%s)" % (run, x["sig"], y["sig"], x["hash"], y["hash"]))
    if diff and not errors:
        log("NOTE the determinism gate saw %d run(s) whose verdict depends on what their worker process had executed before (each is deterministic on its own); see the context replays" % len(diff))
    return errors


def replay_file(binary, path, env=None, timeout=300, args=None):
    rep = json.load(open(path))
    return exec_plan(binary, rep["ops"], env, timeout=timeout, header=rep.get("header"), args=args)
