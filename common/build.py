#!/usr/bin/env python3
"""Content-addressed build of GM2Calc's library objects (and of our own engine
sources) from /repo's *current working tree*.

    build.py <variant>            -> prints path of the object list file
    import build; build.lib_objects(variant) / build.compile_cached(...)

A translation unit is preprocessed with the variant's flags, the preprocessed
text + flags are hashed, and the object is compiled only if no object with
that hash exists in /verif/.build/obj/.  Restored files with old mtimes can
therefore never be missed, and an unchanged tree rebuilds in a few seconds.
"""
import concurrent.futures as cf
import hashlib
import os
import re
import subprocess
import sys

REPO = os.environ.get("VERIF_REPO", "/repo")
VERIF = os.path.dirname(os.path.dirname(os.path.abspath(__file__)))
BUILD = os.path.join(VERIF, ".build")
OBJ = os.path.join(BUILD, "obj")
# linked engines of runs against a scratch copy of the repository (VERIF_REPO, self-tests) live in their own directory,
# so that such a run can never exchange a binary under a check that is running against /repo at the same time
BIN = os.path.join(BUILD, "bin" if REPO == "/repo" else "bin-" + hashlib.md5(REPO.encode()).hexdigest()[:8])
CXX = os.environ.get("VERIF_CXX", "g++")
JOBS = int(os.environ.get("VERIF_JOBS", str(os.cpu_count() or 8)))

INCLUDES = ["-I", os.path.join(REPO, "include"), "-I", os.path.join(REPO, "src"),
            "-isystem", "/usr/include/eigen3"]

COMMON = ["-std=c++14", "-DGM2CALC_VERIF", "-w"]

VARIANTS = {
    # compile-only thread-sanitizer instrumentation; linked against thrsim's own runtime
    "tsanhooks": COMMON + ["-O1", "-g1", "-fsanitize=thread", "-fno-omit-frame-pointer"],
    # ASan + UBSan (+ float-cast-overflow), all fatal except enum; function-entry hooks
    "asan": COMMON + ["-O1", "-g1", "-fno-omit-frame-pointer",
                      "-fsanitize=address,undefined,float-cast-overflow",
                      "-fno-sanitize-recover=all", "-fsanitize-recover=enum",
                      "-D_GLIBCXX_ASSERTIONS",
                      "-finstrument-functions",
                      "-finstrument-functions-exclude-file-list=/usr/include,/usr/lib"],
    # like the shipped build but assertions on
    "plain": COMMON + ["-O2", "-g1"],
}
# Uninitialised automatic variables are filled by the compiler: with a garbage pattern in the main
# sanitizer variant (adversarial content), with zeros in the twin variant "asanz".  A run whose
# observable behaviour differs between the twins has read uninitialised memory.
VARIANTS["asanz"] = VARIANTS["asan"] + ["-ftrivial-auto-var-init=zero"]
VARIANTS["asan"] = VARIANTS["asan"] + ["-ftrivial-auto-var-init=pattern"]


def lib_sources():
    """Source list of add_library(gm2calc ...) in the working tree; glob fallback."""
    src = os.path.join(REPO, "src")
    out = []
    try:
        txt = open(os.path.join(src, "CMakeLists.txt")).read()
        m = re.search(r"add_library\s*\(\s*gm2calc\b(.*?)\)", txt, re.S)
        if m:
            for tok in m.group(1).split():
                if tok.endswith(".cpp"):
                    p = os.path.join(src, tok)
                    if os.path.exists(p):
                        out.append(p)
    except OSError:
        pass
    if len(out) < 10:  # could not parse: fall back to everything but the program
        out = []
        for d, _, fs in os.walk(src):
            for f in fs:
                if f.endswith(".cpp") and f != "gm2calc.cpp":
                    out.append(os.path.join(d, f))
    return sorted(out)


def _run(cmd, **kw):
    return subprocess.run(cmd, stdout=subprocess.PIPE, stderr=subprocess.PIPE, **kw)


def compile_cached(src, flags, extra_key=""):
    """Compile one TU with flags; returns path of the cached object. Raises on error."""
    os.makedirs(OBJ, exist_ok=True)
    pre = _run([CXX, "-E", "-P"] + flags + [src])
    if pre.returncode != 0:
        raise RuntimeError("preprocess failed: %s\n%s" % (src, pre.stderr.decode(errors="replace")[-4000:]))
    h = hashlib.sha256()
    h.update(("\0".join(flags) + "\0" + extra_key + "\0" + CXX + "\0" + os.path.basename(src) + "\0").encode())
    h.update(pre.stdout)
    obj = os.path.join(OBJ, h.hexdigest()[:32] + ".o")
    if not os.path.exists(obj):
        tmp = obj + ".%d.tmp" % os.getpid()
        cc = _run([CXX, "-c"] + flags + [src, "-o", tmp])
        if cc.returncode != 0:
            try:
                os.unlink(tmp)
            except OSError:
                pass
            raise RuntimeError("compile failed: %s\n%s" % (src, cc.stderr.decode(errors="replace")[-4000:]))
        os.replace(tmp, obj)
    else:
        os.utime(obj, None)
    return obj


def compile_many(jobs):
    """jobs: list of (src, flags, extra_key). Returns list of object paths (same order)."""
    with cf.ThreadPoolExecutor(max_workers=JOBS) as ex:
        futs = [ex.submit(compile_cached, *j) for j in jobs]
        return [f.result() for f in futs]


def lib_objects(variant):
    flags = VARIANTS[variant] + INCLUDES
    return compile_many([(s, flags, "") for s in lib_sources()])


def link(objs, out, flags):
    os.makedirs(os.path.dirname(out), exist_ok=True)
    h = hashlib.sha256(("\0".join(objs) + "\0" + "\0".join(flags)).encode()).hexdigest()
    stamp = out + ".stamp"
    if os.path.exists(out) and os.path.exists(stamp) and open(stamp).read() == h:
        return out
    tmp = out + ".%d.tmp" % os.getpid()
    r = _run([CXX] + objs + flags + ["-o", tmp])
    if r.returncode != 0:
        raise RuntimeError("link failed: %s\n%s" % (out, r.stderr.decode(errors="replace")[-6000:]))
    os.replace(tmp, out)
    open(stamp, "w").write(h)
    return out


def prune(max_bytes=3 << 30):
    """Keep the object cache bounded: drop least recently used objects."""
    try:
        ents = [(os.stat(os.path.join(OBJ, f)).st_mtime, os.stat(os.path.join(OBJ, f)).st_size, os.path.join(OBJ, f))
                for f in os.listdir(OBJ)]
    except OSError:
        return
    tot = sum(e[1] for e in ents)
    for mt, sz, p in sorted(ents):
        if tot <= max_bytes:
            break
        try:
            os.unlink(p)
            tot -= sz
        except OSError:
            pass


if __name__ == "__main__":
    v = sys.argv[1]
    objs = lib_objects(v)
    print("\n".join(objs))
