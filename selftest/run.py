#!/usr/bin/env python3
"""Apply each change of selftest/mutations.py (and each /verif/seeded/*/patch.diff) to a scratch
worktree of /repo (outside /repo and /verif) and run the quick check of its property against it
through VERIF_REPO.  Expect exit 1 + VIOLATION for breaking changes, exit 0 for preserving ones.

    selftest/run.py [id-substring ...]      results -> selftest/last_results.json
"""
import json
import os
import subprocess
import sys
import time

VERIF = os.path.dirname(os.path.dirname(os.path.abspath(__file__)))
sys.path.insert(0, os.path.join(VERIF, "selftest"))
import mutations  # noqa: E402

WT = "/tmp/verif-selftest-wt-%d" % os.getpid()  # one worktree per invocation: concurrent invocations must not share it


def sh(cmd, **kw):
    return subprocess.run(cmd, shell=True, stdout=subprocess.PIPE, stderr=subprocess.STDOUT, universal_newlines=True, **kw)


def fresh_worktree():
    sh("git -C /repo worktree remove --force %s" % WT)
    sh("rm -rf %s" % WT)
    r = sh("git -C /repo worktree add -f %s HEAD" % WT)
    if r.returncode != 0:
        raise SystemExit("cannot create worktree: " + r.stdout)


def save(results):
    """results are merged into last_results.json after every item (entries are replaced by id, others kept)"""
    out = os.path.join(VERIF, "selftest", "last_results.json")
    try:
        old = json.load(open(out))
    except Exception:
        old = []
    ids = set(r["id"] for r in results)
    merged = [r for r in old if r["id"] not in ids] + results
    tmp = out + ".tmp"
    json.dump(merged, open(tmp, "w"), indent=1)
    os.replace(tmp, out)


def main():
    sel = sys.argv[1:]
    items = []
    for m in mutations.M:
        items.append(dict(m, kind="selftest"))
    sd = os.path.join(VERIF, "seeded")
    if os.path.isdir(sd):
        for d in sorted(os.listdir(sd)):
            meta = os.path.join(sd, d, "meta.json")
            if os.path.exists(meta):
                mj = json.load(open(meta))
                items.append({"id": "seeded-" + d, "prop": mj["property"], "expect": 1, "patch": os.path.join(sd, d, "patch.diff"), "note": mj.get("needs", ""), "kind": "seeded"})
    if sel:
        items = [i for i in items if any(s in i["id"] for s in sel)]
    else:
        # property-preserving changes first (a false alarm is the worst outcome), then the most recent changes
        items = [i for i in items if i["expect"] == 0] + list(reversed([i for i in items if i["expect"] != 0]))
    results = []
    fresh_worktree()
    try:
        for it in items:
            sh("git -C %s checkout -- . && git -C %s clean -fdq" % (WT, WT))
            ok = True
            if "patch" in it:
                r = sh("git -C %s apply --recount %s" % (WT, it["patch"]))
                ok = r.returncode == 0
                if not ok:
                    print("%-45s PATCH DOES NOT APPLY: %s" % (it["id"], r.stdout.strip()[:200]))
            else:
                for f, old, new in it["edits"]:
                    p = os.path.join(WT, f)
                    s = open(p).read()
                    if old not in s:
                        print("%-45s ANCHOR NOT FOUND in %s" % (it["id"], f))
                        ok = False
                        break
                    open(p, "w").write(s.replace(old, new, 1))
            if not ok:
                results.append(dict(id=it["id"], prop=it["prop"], expect=it["expect"], got=None, ok=False))
                continue
            t0 = time.time()
            env = dict(os.environ, VERIF_REPO=WT)
            r = subprocess.run([os.path.join(VERIF, "check"), it["prop"], "--tier", "quick"], cwd=VERIF, env=env, stdout=subprocess.PIPE, stderr=subprocess.STDOUT, universal_newlines=True)
            viol = [l for l in r.stdout.splitlines() if l.startswith("VIOLATION")]
            good = (r.returncode == it["expect"]) and (bool(viol) == (it["expect"] == 1))
            sigs = [l.split("(", 1)[1].split(";")[0] for l in viol if "(" in l]
            print("%-45s expect %d got %d  %s  %.0fs  %s" % (it["id"], it["expect"], r.returncode, "OK " if good else "BAD", time.time() - t0, "; ".join(sigs)[:160]))
            if not good:
                print("    " + "\n    ".join(r.stdout.splitlines()[-6:]))
            results.append(dict(id=it["id"], prop=it["prop"], expect=it["expect"], got=r.returncode, ok=good, signatures=sigs, seconds=round(time.time() - t0, 1), note=it.get("note", ""),
                                verif_commit=sh("git -C %s rev-parse --short HEAD" % VERIF).stdout.strip()))
            save(results)
    finally:
        sh("git -C /repo worktree remove --force %s" % WT)
        sh("rm -rf %s" % WT)
    save(results)
    bad = [r for r in results if not r["ok"]]
    print("%d/%d as expected" % (len(results) - len(bad), len(results)))
    return 1 if bad else 0


if __name__ == "__main__":
    sys.exit(main())
