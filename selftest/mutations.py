"""Hand-written battery of breaking (expect=1) and property-preserving (expect=0) changes used to
test the checks themselves (DESIGN.md section 6).  Each entry edits files of a scratch worktree by
exact string replacement.  Independent, sub-agent written changes live in /verif/seeded/."""

M = []


def m(id, prop, expect, edits, note):
    M.append({"id": id, "prop": prop, "expect": expect, "edits": edits, "note": note})


# ----------------------------------------------------------------------------- C19
m("c19-static-memo-lambda-qcd", "C19", 1, [("src/gm2_mf.cpp",
   "   boost::uintmax_t it = max_iterations;\n",
   "   boost::uintmax_t it = max_iterations;\n   static double last_alpha = 0, last_scale = 0, last_result = 0;\n"
   "   if (alpha == last_alpha && scale == last_scale) { return last_result; }\n"),
  ("src/gm2_mf.cpp", "   return lambda_qcd;\n}\n\n/**\n * Calculates \\f$F_b",
   "   last_alpha = alpha; last_scale = scale; last_result = lambda_qcd;\n   return lambda_qcd;\n}\n\n/**\n * Calculates \\f$F_b")],
  "unsynchronised function-local static memo")

m("c19-mutex-memo-lambda-qcd", "C19", 0, [("src/gm2_mf.cpp", "#include <cmath>", "#include <cmath>\n#include <mutex>"),
  ("src/gm2_mf.cpp", "   boost::uintmax_t it = max_iterations;\n",
   "   boost::uintmax_t it = max_iterations;\n   static std::mutex mtx;\n   static double last_alpha = 0, last_scale = 0, last_result = 0;\n"
   "   { std::lock_guard<std::mutex> lk(mtx); if (alpha == last_alpha && scale == last_scale) { return last_result; } }\n"),
  ("src/gm2_mf.cpp", "   return lambda_qcd;\n}\n\n/**\n * Calculates \\f$F_b",
   "   { std::lock_guard<std::mutex> lk(mtx); last_alpha = alpha; last_scale = scale; last_result = lambda_qcd; }\n   return lambda_qcd;\n}\n\n/**\n * Calculates \\f$F_b")],
  "the same memo protected by a mutex: property holds")

m("c19-thread-local-memo-lambda-qcd", "C19", 0, [("src/gm2_mf.cpp",
   "   boost::uintmax_t it = max_iterations;\n",
   "   boost::uintmax_t it = max_iterations;\n   static thread_local double last_alpha = 0, last_scale = 0, last_result = 0;\n"
   "   if (alpha == last_alpha && scale == last_scale) { return last_result; }\n"),
  ("src/gm2_mf.cpp", "   return lambda_qcd;\n}\n\n/**\n * Calculates \\f$F_b",
   "   last_alpha = alpha; last_scale = scale; last_result = lambda_qcd;\n   return lambda_qcd;\n}\n\n/**\n * Calculates \\f$F_b")],
  "thread_local memo: property holds")

m("c19-atomic-call-counter", "C19", 0, [("src/MSSMNoFV/gm2_1loop.cpp", "#include <cmath>", "#include <atomic>\n#include <cmath>"),
  ("src/MSSMNoFV/gm2_1loop.cpp", "double calculate_amu_1loop_non_tan_beta_resummed(const MSSMNoFV_onshell& model)\n{\n",
   "double calculate_amu_1loop_non_tan_beta_resummed(const MSSMNoFV_onshell& model)\n{\n   static std::atomic<unsigned long> n_calls{0};\n   n_calls.fetch_add(1, std::memory_order_relaxed);\n")],
  "atomic statistics counter: property holds")

m("c19-const-cast-writeback", "C19", 1, [("src/MSSMNoFV/gm2_1loop.cpp",
   "   MSSMNoFV_onshell model_ytree(model);\n   model_ytree.convert_to_non_tan_beta_resummed();\n\n   return amu1LChi0(model_ytree) + amu1LChipm(model_ytree);\n",
   "   // avoid the copy: switch the caller's object temporarily to the tree-level Yukawa couplings\n"
   "   auto& m = const_cast<MSSMNoFV_onshell&>(model);\n   const auto Ye = m.get_Ye(); const auto Yd = m.get_Yd();\n"
   "   m.convert_to_non_tan_beta_resummed();\n   const double res = amu1LChi0(m) + amu1LChipm(m);\n   m.set_Ye(Ye); m.set_Yd(Yd);\n   return res;\n")],
  "temporarily modifies the const argument and restores it: races on shared models")

m("c19-stale-cache-keyed-on-address", "C19", 1, [("src/MSSMNoFV/gm2_1loop.cpp",
   "double amu1LChi0(const MSSMNoFV_onshell& model)\n{\n",
   "double amu1LChi0(const MSSMNoFV_onshell& model)\n{\n   static thread_local const MSSMNoFV_onshell* last = nullptr;\n   static thread_local double last_val = 0;\n   if (last == &model) { return last_val; }\n"),
  ("src/MSSMNoFV/gm2_1loop.cpp", "   return result * sqr(model.get_MM()) * oneOver16PiSqr;\n}\n\n/**\n * Calculates 1-loop chargino",
   "   last = &model; last_val = result * sqr(model.get_MM()) * oneOver16PiSqr;\n   return result * sqr(model.get_MM()) * oneOver16PiSqr;\n}\n\n/**\n * Calculates 1-loop chargino")],
  "thread-local cache keyed on the object address only: stale result after the address is reused for another model")

# ----------------------------------------------------------------------------- C17
m("c17-drop-try-catch", "C17", 1, [("src/MSSMNoFV/gm2_1loop_c.cpp",
   "   double amu = std::numeric_limits<double>::quiet_NaN();\n\n   try {\n      amu = gm2calc::calculate_amu_1loop_non_tan_beta_resummed(\n         *reinterpret_cast<const gm2calc::MSSMNoFV_onshell*>(model));\n   } catch (...) {}\n\n   return amu;\n",
   "   return gm2calc::calculate_amu_1loop_non_tan_beta_resummed(\n      *reinterpret_cast<const gm2calc::MSSMNoFV_onshell*>(model));\n")],
  "exception protection removed from one wrapper")

m("c17-swap-error-codes", "C17", 1, [("src/THDM/THDM_c.cpp",
   "   } catch (const gm2calc::EInvalidInput&) {\n      *model = nullptr;\n      error = gm2calc_InvalidInput;\n   } catch (const gm2calc::EPhysicalProblem&) {\n      *model = nullptr;\n      error = gm2calc_PhysicalProblem;\n   } catch (...) {\n      *model = nullptr;\n      error = gm2calc_UnknownError;\n   }\n\n   return error;\n}\n\n/**\n * @brief Allocate a new general THDM model with physical",
   "   } catch (const gm2calc::EInvalidInput&) {\n      *model = nullptr;\n      error = gm2calc_PhysicalProblem;\n   } catch (const gm2calc::EPhysicalProblem&) {\n      *model = nullptr;\n      error = gm2calc_InvalidInput;\n   } catch (...) {\n      *model = nullptr;\n      error = gm2calc_UnknownError;\n   }\n\n   return error;\n}\n\n/**\n * @brief Allocate a new general THDM model with physical")],
  "two error codes swapped in the gauge-basis constructor")

m("c17-string-copy-off-by-one", "C17", 1, [("src/MSSMNoFV/MSSMNoFV_onshell_c.cpp",
   "get_problems().get_warnings());\n   msg[str.copy(msg, len - 1)] = '\\0';", "get_problems().get_warnings());\n   msg[str.copy(msg, len)] = '\\0';")],
  "terminating NUL written one past the buffer when the warning text is truncated")

m("c17-wrong-index", "C17", 1, [("src/MSSMNoFV/MSSMNoFV_onshell_c.cpp",
   "   return reinterpret_cast<const gm2calc::MSSMNoFV_onshell*>(model)->get_MAh(1);", "   return reinterpret_cast<const gm2calc::MSSMNoFV_onshell*>(model)->get_MAh(0);")],
  "get_MAh returns the Goldstone entry")

m("c17-leak-on-error-path", "C17", 1, [("src/THDM/THDM_c.cpp",
   "      *model = reinterpret_cast<gm2calc_THDM*>(new gm2calc::THDM(b, s, c));\n      error = gm2calc_NoError;\n   } catch (const gm2calc::EInvalidInput&) {\n      *model = nullptr;\n      error = gm2calc_InvalidInput;\n   } catch (const gm2calc::EPhysicalProblem&) {\n      *model = nullptr;\n      error = gm2calc_PhysicalProblem;\n   } catch (...) {\n      *model = nullptr;\n      error = gm2calc_UnknownError;\n   }\n\n   return error;\n}\n\n/**\n * @brief Deletes",
   "      auto* sm_copy = new gm2calc::SM(s); // keep the SM alive for the model\n      *model = reinterpret_cast<gm2calc_THDM*>(new gm2calc::THDM(b, *sm_copy, c));\n      delete sm_copy;\n      error = gm2calc_NoError;\n   } catch (const gm2calc::EInvalidInput&) {\n      *model = nullptr;\n      error = gm2calc_InvalidInput;\n   } catch (const gm2calc::EPhysicalProblem&) {\n      *model = nullptr;\n      error = gm2calc_PhysicalProblem;\n   } catch (...) {\n      *model = nullptr;\n      error = gm2calc_UnknownError;\n   }\n\n   return error;\n}\n\n/**\n * @brief Deletes")],
  "heap object leaked when the mass-basis constructor throws")

m("c17-extra-caught-exception", "C17", 0, [("src/MSSMNoFV/gm2_1loop_c.cpp", "#include <limits>", "#include <exception>\n#include <limits>"), ("src/MSSMNoFV/gm2_1loop_c.cpp",
   "         *reinterpret_cast<const gm2calc::MSSMNoFV_onshell*>(model));\n   } catch (...) {}\n\n   return amu;\n}\n\n/** calculates full 1-loop SUSY contributions to (g-2) in the MSSM (no tan(beta) resummation) */",
   "         *reinterpret_cast<const gm2calc::MSSMNoFV_onshell*>(model));\n   } catch (const std::exception&) {\n   } catch (...) {}\n\n   return amu;\n}\n\n/** calculates full 1-loop SUSY contributions to (g-2) in the MSSM (no tan(beta) resummation) */")],
  "additional (redundant) catch clause: property holds")

# ----------------------------------------------------------------------------- C14
m("c14-drop-isfinite", "C14", 0, [("src/gm2_slha_io.hpp",
   "      if (!std::isfinite(static_cast<double>(value))) {\n         throw 1;\n      }\n", "")],
  "non-finite numbers accepted by convert_to: NOT a C14 violation on this tree (NaN propagates, integer readers reject it, no UB); "
  "kept as a specificity case -- it was a C14 violation before fix 3428776 (uninitialised SVD results)")

m("c14-read-scale-without-size-test", "C14", 1, [("src/gm2_slha_io.cpp",
   "      if (line.is_block_def() && line.size() > 3 && line[2] == \"Q=\") {", "      if (line.is_block_def() && line[2] == \"Q=\") {")],
  "block header with fewer than 3 fields indexes past the line")

m("c14-catch-and-abort", "C14", 1, [("src/gm2calc.cpp",
   "   } catch (const gm2calc::Error& error) {\n      print_error(error, slha_io, config_options);\n      exit_code = EXIT_FAILURE;\n   }\n",
   "   } catch (const gm2calc::EReadError& error) {\n      print_error(error, slha_io, config_options);\n      exit_code = EXIT_FAILURE;\n   } catch (const gm2calc::EInvalidInput& error) {\n      print_error(error, slha_io, config_options);\n      exit_code = EXIT_FAILURE;\n   } catch (const gm2calc::EPhysicalProblem& error) {\n      print_error(error, slha_io, config_options);\n      exit_code = EXIT_FAILURE;\n   }\n")],
  "ESetupError (e.g. invalid Yukawa type) no longer caught in main")

m("c14-warning-to-stdout", "C14", 1, [("src/gm2_slha_io.cpp",
   "WARNING(\"Unrecognized entry in block HMIX: \" << key);", "std::cout << \"Warning: Unrecognized entry in block HMIX: \" << key << '\\n';")],
  "a diagnostic written to stdout")

m("c14-silent-failure-exit", "C14", 1, [("src/gm2calc.cpp",
   "      ERROR(\"Unrecognized command line option: \" << option_string);\n      exit(EXIT_FAILURE);", "      exit(EXIT_FAILURE);")],
  "failure exit without diagnostic for an unknown option")

m("c14-different-diagnostic-text", "C14", 0, [("src/gm2calc.cpp",
   "      ERROR(\"Unrecognized command line option: \" << option_string);", "      ERROR(\"unknown option '\" << option_string << \"' (try --help)\");")],
  "different but legal diagnostic text: property holds")

m("c14-uninitialised-svd-result", "C14", 1, [("src/gm2_linalg.hpp",
   "    if (!m.allFinite()) {\n", "    if (false) {\n")],
  "reverts fix 3428776: JacobiSVD results are used uninitialised for non-finite mass matrices (reachable from the CLI through overflowing but finite input values)")

m("c14-uninitialised-scale", "C14", 1, [("src/gm2_slha_io.cpp",
   "double GM2_slha_io::read_scale(const SLHAea::Block& block)\n{\n   double scale = 0.0;",
   "double GM2_slha_io::read_scale(const SLHAea::Block& block)\n{\n   double scale;")],
  "block scale left uninitialised when the block definition has no Q= entry")

m("c17-uninitialised-svd-result", "C17", 1, [("src/gm2_linalg.hpp",
   "    if (!m.allFinite()) {\n", "    if (false) {\n")],
  "reverts fix 3428776 (seen from the C API): values computed from uninitialised JacobiSVD results cross the interface after non-finite setter values")

# lazily initialised table in calculate_mb_SM5_DRbar: three ways to do it
_LAZY_OLD = "   // determine Lambda_QCD\n   const double lambda_qcd = calculate_lambda_qcd(alpha_s, scale);\n"
m("c19-lazy-table-plain-bool", "C19", 1, [("src/gm2_mf.cpp", _LAZY_OLD,
   "   static bool table_ready = false;\n   static double table[64];\n"
   "   if (!table_ready) { for (int i = 0; i < 64; ++i) { table[i] = std::log(1.0 + i); } table_ready = true; }\n"
   "   (void)table[7];\n" + _LAZY_OLD)],
  "lazily built table guarded by a plain bool (racy initialisation)")

m("c19-lazy-table-call-once", "C19", 0, [("src/gm2_mf.cpp", "#include <cmath>", "#include <cmath>\n#include <mutex>"), ("src/gm2_mf.cpp", _LAZY_OLD,
   "   static std::once_flag table_once;\n   static double table[64];\n"
   "   std::call_once(table_once, [] { for (int i = 0; i < 64; ++i) { table[i] = std::log(1.0 + i); } });\n"
   "   (void)table[7];\n" + _LAZY_OLD)],
  "lazily built table initialised with std::call_once: property holds")

m("c19-lazy-table-double-checked-locking", "C19", 0, [("src/gm2_mf.cpp", "#include <cmath>", "#include <atomic>\n#include <cmath>\n#include <mutex>"), ("src/gm2_mf.cpp", _LAZY_OLD,
   "   static std::atomic<bool> table_ready{false};\n   static std::mutex table_mutex;\n   static double table[64];\n"
   "   if (!table_ready.load(std::memory_order_acquire)) {\n      std::lock_guard<std::mutex> lk(table_mutex);\n"
   "      if (!table_ready.load(std::memory_order_relaxed)) { for (int i = 0; i < 64; ++i) { table[i] = std::log(1.0 + i); } table_ready.store(true, std::memory_order_release); }\n   }\n"
   "   (void)table[7];\n" + _LAZY_OLD)],
  "correct double-checked locking with an atomic flag: property holds")

m("c19-lazy-table-magic-static", "C19", 0, [("src/gm2_mf.cpp", "#include <cmath>", "#include <array>\n#include <cmath>"), ("src/gm2_mf.cpp", _LAZY_OLD,
   "   static const std::array<double, 64> table = [] { std::array<double, 64> t{}; for (int i = 0; i < 64; ++i) { t[i] = std::log(1.0 + i); } return t; }();\n"
   "   (void)table[7];\n" + _LAZY_OLD)],
  "function-local static initialised by a lambda (guarded by the compiler): property holds")

m("c19-copy-forgets-member", "C19", 1, [("include/gm2calc/MSSMNoFV_onshell.hpp",
   "   MSSMNoFV_onshell();\n",
   "   MSSMNoFV_onshell();\n   MSSMNoFV_onshell(const MSSMNoFV_onshell& o)\n      : MSSMNoFV_onshell_mass_eigenstates(o), verbose_output(o.verbose_output), EL(o.EL), EL0(o.EL0), Au(o.Au), Ad(o.Ad), Ae(o.Ae) {}\n"
   "   MSSMNoFV_onshell& operator=(const MSSMNoFV_onshell&) = default;\n")],
  "user-written copy constructor that forgets mb_DRbar_MZ: results on a copy differ from the original")

# ----------------------------------------------------------------------------- C19: process-global environment
m("c19-rounding-mode-leak-on-solver-failure", "C19", 1, [("src/gm2_mf.cpp", "#include <cmath>", "#include <cfenv>\n#include <cmath>"),
  ("src/gm2_mf.cpp",
   "   try {\n      const std::pair<double,double> root =\n         boost::math::tools::toms748_solve(Difference_alpha, lambda_qcd_min,\n                                           lambda_qcd_max, Stop_crit, it);\n\n      lambda_qcd = 0.5 * (root.first + root.second);\n",
   "   try {\n      // bracket the root with outward rounding so that the enclosure is rigorous\n      const int old_round = std::fegetround();\n      std::fesetround(FE_UPWARD);\n      const std::pair<double,double> root =\n         boost::math::tools::toms748_solve(Difference_alpha, lambda_qcd_min,\n                                           lambda_qcd_max, Stop_crit, it);\n      std::fesetround(old_round);\n\n      lambda_qcd = 0.5 * (root.first + root.second);\n")],
  "rounding mode changed around the root finder and not restored when the solver throws (MZ far outside the bracket): later evaluations in the same thread differ")

m("c19-cerr-format-leak-on-warning", "C19", 1, [("src/gm2_mf.cpp", "#include <cmath>", "#include <cmath>\n#include <iomanip>\n#include <iostream>"),
  ("src/gm2_mf.cpp",
   "      WARNING(\"Could not determine lambda_QCD: \" << e.what()\n              << \".  Using lambda_QCD = \" << lambda_qcd);\n",
   "      std::cerr << std::scientific << std::setprecision(17);\n      WARNING(\"Could not determine lambda_QCD: \" << e.what()\n              << \".  Using lambda_QCD = \" << lambda_qcd);\n")],
  "a rarely taken warning path leaves std::cerr in scientific/17-digit mode: the leak itself changes only the text of later diagnostics (counted as an observation), but setting format flags of the shared std::cerr object from several threads is a data race (setf/precision are not among the I/O functions the standard makes race-free): reported as race:std::cerr by the simulator and by ThreadSanitizer")

m("c19-rounding-mode-saved-and-restored", "C19", 0, [("src/gm2_mf.cpp", "#include <cmath>", "#include <cfenv>\n#include <cmath>"),
  ("src/gm2_mf.cpp",
   "   double lambda_qcd = 0.217; // Nf = 5, PDG\n",
   "   double lambda_qcd = 0.217; // Nf = 5, PDG\n   struct Round_guard { int old; Round_guard() : old(std::fegetround()) { std::fesetround(FE_TONEAREST); } ~Round_guard() { std::fesetround(old); } } round_guard;\n")],
  "RAII guard forcing round-to-nearest during the solve and restoring the caller's mode: property holds")

# ----------------------------------------------------------------------------- C19: shared state whose accesses all happen inside libstdc++.so
m("c19-static-ostringstream-in-get_problems", "C19", 1, [("src/MSSMNoFV/MSSMNoFV_onshell_problems.cpp",
   "std::string MSSMNoFV_onshell_problems::get_problems() const\n{\n   std::ostringstream ostr;\n   print_problems(ostr);\n   return ostr.str();\n}",
   "std::string MSSMNoFV_onshell_problems::get_problems() const\n{\n   // constructing a stream is expensive (locale initialisation): reuse one\n   static std::ostringstream ostr;\n   ostr.str(std::string());\n   ostr.clear();\n   print_problems(ostr);\n   return ostr.str();\n}"),
  ("src/MSSMNoFV/MSSMNoFV_onshell_problems.cpp",
   "std::string MSSMNoFV_onshell_problems::get_warnings() const\n{\n   std::ostringstream ostr;\n   print_warnings(ostr);\n   return ostr.str();\n}",
   "std::string MSSMNoFV_onshell_problems::get_warnings() const\n{\n   static std::ostringstream ostr;\n   ostr.str(std::string());\n   ostr.clear();\n   print_warnings(ostr);\n   return ostr.str();\n}")],
  "function-local static std::ostringstream reused by all callers: every access to the shared object happens inside libstdc++.so (uninstrumented)")

m("c19-static-string-scratch-in-thdm-problems", "C19", 1, [("src/THDM/THDM_problems.cpp",
   "std::string THDM_problems::get_problems() const\n{\n   std::ostringstream ostr;\n   print_problems(ostr);\n   return ostr.str();\n}",
   "std::string THDM_problems::get_problems() const\n{\n   static std::string buf; // keeps its capacity between calls\n   std::ostringstream ostr;\n   print_problems(ostr);\n   buf = ostr.str();\n   return buf;\n}")],
  "function-local static std::string assigned and copied by all callers (accesses inside libstdc++.so)")

# ----------------------------------------------------------------------------- specificity of the process-reuse handling
m("c14-warn-only-once-per-process", "C14", 0, [("src/gm2_slha_io.cpp",
   "   default:\n      WARNING(\"Unrecognized entry in block GM2CalcConfig: \" << key);\n      break;",
   "   default: {\n      // one warning per process is enough\n      static bool warned = false;\n      if (!warned) { WARNING(\"Unrecognized entry in block GM2CalcConfig: \" << key); warned = true; }\n      break;\n   }")],
  "state kept for the life of a process by the command-line program (warn once): every real invocation is a fresh process, so the property holds; "
  "the in-process workers execute thousands of runs per process and must not turn this into an alarm")

m("c17-per-thread-scratch-sm-reset-each-call", "C17", 0, [("src/THDM/THDM_c.cpp",
   "gm2calc::SM convert_to_SM(const ::gm2calc_SM* sm)\n{\n   gm2calc::SM s;\n",
   "gm2calc::SM convert_to_SM(const ::gm2calc_SM* sm)\n{\n   static thread_local gm2calc::SM scratch;\n   scratch = gm2calc::SM(); // start from the defaults every time\n   gm2calc::SM& s = scratch;\n")],
  "thread_local scratch object that is reset to the defaults on every call: property holds")

# ----------------------------------------------------------------------------- C19: memo with a coarse key (needs near-duplicate points)
m("c19-thread-local-memo-coarse-key", "C19", 1, [("src/gm2_mf.cpp",
   "   boost::uintmax_t it = max_iterations;\n",
   "   boost::uintmax_t it = max_iterations;\n   static thread_local float last_alpha = 0, last_scale = 0;\n   static thread_local double last_result = 0;\n"
   "   if (static_cast<float>(alpha) == last_alpha && static_cast<float>(scale) == last_scale) { return last_result; }\n"),
  ("src/gm2_mf.cpp", "   return lambda_qcd;\n}\n\n/**\n * Calculates \\f$F_b",
   "   last_alpha = static_cast<float>(alpha); last_scale = static_cast<float>(scale); last_result = lambda_qcd;\n   return lambda_qcd;\n}\n\n/**\n * Calculates \\f$F_b")],
  "thread_local memo (no race) whose key is truncated to float: a point whose alpha_s differs by less than 1e-7 from the previous one in the thread gets the neighbour's Lambda_QCD")

# ----------------------------------------------------------------------------- C19 through the C interface
m("c19-one-slot-recycling-in-c-new-free", "C19", 1, [("src/MSSMNoFV/MSSMNoFV_onshell_c.cpp",
   "MSSMNoFV_onshell* gm2calc_mssmnofv_new()\n{\n   return reinterpret_cast<MSSMNoFV_onshell*>(new gm2calc::MSSMNoFV_onshell());\n}",
   "static gm2calc::MSSMNoFV_onshell* recycled = nullptr; // last freed model, reused by the next new()\n\n"
   "MSSMNoFV_onshell* gm2calc_mssmnofv_new()\n{\n   if (recycled != nullptr) {\n      gm2calc::MSSMNoFV_onshell* m = recycled;\n      recycled = nullptr;\n      *m = gm2calc::MSSMNoFV_onshell();\n      return reinterpret_cast<MSSMNoFV_onshell*>(m);\n   }\n"
   "   return reinterpret_cast<MSSMNoFV_onshell*>(new gm2calc::MSSMNoFV_onshell());\n}"),
  ("src/MSSMNoFV/MSSMNoFV_onshell_c.cpp",
   "void gm2calc_mssmnofv_free(MSSMNoFV_onshell* model)\n{\n   delete reinterpret_cast<gm2calc::MSSMNoFV_onshell*>(model);\n}",
   "void gm2calc_mssmnofv_free(MSSMNoFV_onshell* model)\n{\n   if (model == nullptr) { return; }\n   delete recycled;\n   recycled = reinterpret_cast<gm2calc::MSSMNoFV_onshell*>(model);\n}")],
  "process-wide one-slot recycling of model objects behind the C new/free without synchronisation: parallel construction through the C interface races (two threads can get the same object)")

# ----------------------------------------------------------------------------- C14: remaining clauses (leak, exit status, bounded time with calls)
m("c14-leak-on-error-path", "C14", 1, [("src/gm2calc.cpp",
   "   try {\n      set_to_default(config_options, options);\n      slha_io.read_from_source(options.input_source);\n      slha_io.fill(config_options);\n",
   "   try {\n      set_to_default(config_options, options);\n      auto* input_name = new std::string(options.input_source); // kept for diagnostics\n      slha_io.read_from_source(*input_name);\n      slha_io.fill(config_options);\n      delete input_name;\n")],
  "heap object not released when reading or configuration parsing throws: leak on every failing input")

m("c14-exit-status-2-for-read-errors", "C14", 1, [("src/gm2calc.cpp",
   "   } catch (const gm2calc::Error& error) {\n      print_error(error, slha_io, config_options);\n      exit_code = EXIT_FAILURE;\n   }\n\n   return exit_code;",
   "   } catch (const gm2calc::EReadError& error) {\n      print_error(error, slha_io, config_options);\n      exit_code = 2; // distinguish I/O problems from physics problems\n   } catch (const gm2calc::Error& error) {\n      print_error(error, slha_io, config_options);\n      exit_code = EXIT_FAILURE;\n   }\n\n   return exit_code;")],
  "a third exit status for read errors")

m("c14-retry-loop-on-unreadable-file", "C14", 1, [("src/gm2_slha_io.cpp",
   "   std::ifstream ifs(file_name);\n   if (ifs.good()) {\n      data.clear();\n      data.read(ifs);\n   } else {\n      throw EReadError(\"cannot read input file: \\\"\" + file_name + \"\\\"\");\n   }",
   "   // network file systems: the file may appear a moment later\n   for (;;) {\n      std::ifstream ifs(file_name);\n      if (ifs.good()) {\n         data.clear();\n         data.read(ifs);\n         return;\n      }\n      if (file_name.empty()) {\n         throw EReadError(\"cannot read input file: \\\"\" + file_name + \"\\\"\");\n      }\n      WARNING(\"cannot open \\\"\" << file_name << \"\\\", retrying\");\n   }")],
  "unbounded retry loop (with calls and output) when the input file cannot be opened")

m("c14-quadratic-duplicate-key-scan", "C14", 1, [("src/gm2_slha_io.cpp",
   "   for (const auto& line : block) {\n      if (line.is_data_line() && line.size() >= 2) {\n         const auto key = convert_to<int>(line[0]);\n         const auto value = convert_to<double>(line[1]);\n         processor(key, value);\n      }\n   }\n}",
   "   for (const auto& line : block) {\n      if (line.is_data_line() && line.size() >= 2) {\n         const auto key = convert_to<int>(line[0]);\n         const auto value = convert_to<double>(line[1]);\n"
   "         // only the last entry with a given key counts: skip this one if the key appears again below\n         bool overridden = false;\n         for (const auto& other : block) {\n            if (&other > &line && other.is_data_line() && other.size() >= 2 && convert_to<int>(other[0]) == key) { overridden = true; }\n         }\n"
   "         if (!overridden) { processor(key, value); }\n      }\n   }\n}")],
  "quadratic duplicate-key scan in read_block: a block with thousands of entries (64 KiB of repeated lines) exceeds the time budget by orders of magnitude while every shipped file is as fast as before")

m("c14-buffer-sized-from-stream-length", "C14", 1, [("src/gm2_slha_io.cpp",
   "void GM2_slha_io::read_from_stream(std::istream& istr)\n{\n   data.read(istr);\n}",
   "void GM2_slha_io::read_from_stream(std::istream& istr)\n{\n   // read the whole stream at once into a buffer of the right size\n   istr.seekg(0, std::ios::end);\n   const std::streamoff size = istr.tellg();\n   istr.seekg(0, std::ios::beg);\n"
   "   std::string content(static_cast<std::size_t>(size), '\\0');\n   istr.read(&content[0], size);\n   std::istringstream stream(content);\n   data.read(stream);\n}"),
  ("src/gm2_slha_io.cpp", "#include <fstream>", "#include <fstream>\n#include <sstream>")],
  "stream length taken with seekg/tellg: fine for string streams (the unit tests) and for a regular file on stdin, but a pipe cannot seek: tellg() = -1, std::string(size_t(-1)) throws std::length_error out of main()")

# ----------------------------------------------------------------------------- C19 specificity: representation vs. observable state
m("c19-atomic-evaluation-counter-inside-the-model", "C19", 0, [("include/gm2calc/MSSMNoFV_onshell.hpp",
   "#include <cmath>\n#include <iosfwd>\n",
   "#include <atomic>\n#include <cmath>\n#include <iosfwd>\n"),
  ("include/gm2calc/MSSMNoFV_onshell.hpp",
   "class MSSMNoFV_onshell : public MSSMNoFV_onshell_mass_eigenstates {\npublic:\n   MSSMNoFV_onshell();\n",
   "/// statistics: number of 1-loop evaluations of a model (relaxed atomic, copies carry the value)\nstruct Evaluation_counter {\n   mutable std::atomic<unsigned long> n{0};\n   Evaluation_counter() = default;\n   Evaluation_counter(const Evaluation_counter& o) : n(o.n.load(std::memory_order_relaxed)) {}\n   Evaluation_counter& operator=(const Evaluation_counter& o) { n.store(o.n.load(std::memory_order_relaxed), std::memory_order_relaxed); return *this; }\n};\n\n"
   "class MSSMNoFV_onshell : public MSSMNoFV_onshell_mass_eigenstates {\npublic:\n   Evaluation_counter evaluation_counter;\n   MSSMNoFV_onshell();\n"),
  ("src/MSSMNoFV/gm2_1loop.cpp",
   "double calculate_amu_1loop(const MSSMNoFV_onshell& model)\n{\n   return amu1LChi0(model) + amu1LChipm(model);\n}",
   "double calculate_amu_1loop(const MSSMNoFV_onshell& model)\n{\n   model.evaluation_counter.n.fetch_add(1, std::memory_order_relaxed);\n   return amu1LChi0(model) + amu1LChipm(model);\n}")],
  "an atomic statistics counter INSIDE the model object, incremented by a const evaluation: the object's byte image changes, but no getter, printed text or result does, and it is thread-safe: property holds")

# ----------------------------------------------------------------------------- property-preserving changes given as patch files
M.append({"id": "c17-bounded-model-pool-correct", "prop": "C17", "expect": 0, "patch": __import__("os").path.join(__import__("os").path.dirname(__import__("os").path.abspath(__file__)), "patches", "c17-bounded-model-pool-correct.diff"),
          "note": "the per-thread pool of at most 8 recycled model objects behind gm2calc_mssmnofv_new/free of seeded change c17i with its defect repaired (null handles are not pooled): models stay alive after free by design, bounded; property holds"})
M.append({"id": "c19-bounded-model-pool-correct", "prop": "C19", "expect": 0, "patch": __import__("os").path.join(__import__("os").path.dirname(__import__("os").path.abspath(__file__)), "patches", "c17-bounded-model-pool-correct.diff"),
          "note": "the same thread_local pool seen by the thread-safety check: no shared state, recycled objects are reset: property holds"})
