"""C14 driver: builds clisim (L1) and the real executable with the syscall shim (L2)
from the working tree; runs crash-point and token enumerations, seeded random plans,
the L2 sample and (thorough) a valgrind sample."""
import concurrent.futures as cf
import json
import os
import re
import shutil
import subprocess
import tempfile
import time

import build
import orch

VERIF = build.VERIF
HERE = os.path.join(VERIF, "clisim")
PROP = "C14"
ENV = {"UBSAN_OPTIONS": "exitcode=78:print_stacktrace=0:halt_on_error=1"}
RUN = os.path.join(build.BUILD, "run")
TWIN = None
VG = None
ENV_VG = {"CLISIM_NO_CALIBRATION": "1", "VERIF_WATCHDOG_S": "900"}
# heap garbage differs between the twins as well (ASan fills fresh allocations)
ENV_A = dict(ENV, ASAN_OPTIONS="malloc_fill_byte=190:max_malloc_fill_size=65536")
ENV_Z = dict(ENV, ASAN_OPTIONS="malloc_fill_byte=0:max_malloc_fill_size=65536")


def corpus_manifest():
    repo = build.REPO
    m = {}
    try:
        for l in open(os.path.join(repo, "test", "test_points.sh")):
            mm = re.match(r"\$\{BASEDIR\}/(test_points/[^,]+),(\w+),", l.strip())
            if mm:
                m[mm.group(1)] = mm.group(2)
    except OSError:
        pass
    out = []
    for n, t in (("input/example.slha", "slha"), ("input/example.gm2", "gm2calc"), ("input/example.thdm", "thdm")):
        if os.path.exists(os.path.join(repo, n)):
            out.append("%s %s/%s" % (t, repo, n))
    tp = os.path.join(repo, "test", "test_points")
    if os.path.isdir(tp):
        for f in sorted(os.listdir(tp)):
            if not f.endswith(".in"):
                continue
            t = m.get("test_points/" + f, "thdm" if "thdm" in f else "slha")
            if t not in ("slha", "gm2calc", "thdm"):
                t = "slha"
            out.append("%s %s/test/test_points/%s" % (t, repo, f))
    os.makedirs(RUN, exist_ok=True)
    p = os.path.join(RUN, "clisim-corpus-%d.txt" % os.getpid())
    open(p, "w").write("\n".join(out) + "\n")
    return p, len(out)


def build_engines(want_plain=False):
    objs = build.lib_objects("asan")
    aflags = build.VARIANTS["asan"] + build.INCLUDES
    hflags = [f for f in build.VARIANTS["asan"] if not f.startswith("-finstrument")] + build.INCLUDES
    main_src = os.path.join(build.REPO, "src", "gm2calc.cpp")
    jobs = [(os.path.join(HERE, "clisim.cpp"), hflags, ""),
            (main_src, aflags + ["-include", os.path.join(HERE, "prelude.h")], "l1"),
            (main_src, aflags, "l2"),
            (os.path.join(HERE, "shim.cpp"), hflags, "")]
    eo, m1, m2, sh = build.compile_many(jobs)
    WRAP = ["-Wl,--wrap=getenv", "-Wl,--wrap=secure_getenv"]  # the process environment is part of the simulated world
    l1 = build.link([eo, m1] + objs, os.path.join(build.BIN, "clisim"), ["-fsanitize=address,undefined"] + WRAP)
    # twin of L1: uninitialised automatic variables are zero instead of a garbage pattern
    zobjs = build.lib_objects("asanz")
    zflags = build.VARIANTS["asanz"] + build.INCLUDES
    (mz,) = build.compile_many([(main_src, zflags + ["-include", os.path.join(HERE, "prelude.h")], "l1z")])
    global TWIN
    TWIN = build.link([eo, mz] + zobjs, os.path.join(build.BIN, "clisim_z"), ["-fsanitize=address,undefined"] + WRAP)
    l2 = build.link([sh, m2] + objs, os.path.join(build.BIN, "gm2calc_l2"), ["-fsanitize=address,undefined", "-ldl"])
    # in-process worker WITHOUT sanitizers, to be run under valgrind (uninitialised-memory clause): thousands of plans
    # per valgrind process instead of one process per plan
    global VG
    VG = None
    if shutil.which("valgrind"):
        pflags0 = build.VARIANTS["plain"] + build.INCLUDES
        eo_p, m1_p = build.compile_many([(os.path.join(HERE, "clisim.cpp"), pflags0 + ["-DCLISIM_NO_ALLOC_COUNT"], "vg"), (main_src, pflags0 + ["-include", os.path.join(HERE, "prelude.h")], "l1vg")])
        vgbin = build.link([eo_p, m1_p] + build.lib_objects("plain"), os.path.join(build.BIN, "clisim_plain"), WRAP)
        VG = os.path.join(build.BIN, "clisim_vg")
        script = "#!/bin/sh\nexec %s -q --error-exitcode=75 --exit-on-first-error=yes %s \"$@\"\n" % (shutil.which("valgrind"), vgbin)
        if not os.path.exists(VG) or open(VG).read() != script:
            open(VG, "w").write(script)
            os.chmod(VG, 0o755)
    pl = None
    if want_plain:
        pobjs = build.lib_objects("plain")
        pflags = build.VARIANTS["plain"] + build.INCLUDES
        pm, ps = build.compile_many([(main_src, pflags, "plain"), (os.path.join(HERE, "shim.cpp"), pflags, "plain")])
        pl = build.link([ps, pm] + pobjs, os.path.join(build.BIN, "gm2calc_plain"), ["-ldl"])
    return l1, l2, pl


class L2Runner:
    """runs one plan through the real executable (L2) and compares with L1 where comparable"""

    def __init__(self, l1, l2, manifest, tag="l2"):
        self.l1, self.l2, self.manifest = l1, l2, manifest
        self.dir = tempfile.mkdtemp(prefix="clisim-%s-" % (tag + "____")[:4], dir=RUN)  # fixed-width name
        self.fs = os.path.join(self.dir, "fs")
        os.makedirs(self.fs, exist_ok=True)
        self.w = orch.Worker(l1, 700 + os.getpid() % 100, ENV, tag=tag + str(id(self) % 1000), args=[manifest, self.fs])

    def close(self):
        self.w.close()
        shutil.rmtree(self.dir, ignore_errors=True)

    def run(self, plan, binary=None, wrapper=None, timeout=60):
        pf = os.path.join(self.dir, "plan.txt")
        open(pf, "w").write("\n".join(plan) + "\n")
        md = os.path.join(self.dir, "m")
        shutil.rmtree(md, ignore_errors=True)
        os.makedirs(md)
        lines, death = orch.command(self.w, "MATERIALISE %s %s" % (pf, md), timeout=300)
        if death is not None:
            self.w.kill()
            self.w.start()
            return {"l1_died": True}
        res = [l for l in lines if l.startswith("RESULT ")]
        l1sig = dict(x.split("=", 1) for x in res[0][7:].split() if "=" in x)["sig"] if res else "?"
        meta = {}
        pre, post = [], []
        for l in open(os.path.join(md, "meta.txt"), encoding="utf-8", errors="surrogateescape").read().split("\n"):
            if l.startswith("prearg "):
                pre.append(l[7:])
            elif l.startswith("postarg "):
                post.append(l[8:])
            elif " " in l:
                k, v = l.split(" ", 1)
                meta[k] = v
        src = int(meta.get("src", "0"))
        path = os.path.join(self.fs, "input.in")
        source = {0: "-", 1: path, 2: os.path.join(self.fs, "does-not-exist.in"), 3: self.fs, 4: "", 6: os.path.join(self.fs, meta.get("longname", "x")), 7: meta.get("tilde", "~")}.get(src)
        have_file = src == 1 or meta.get("materialise") == "1"
        fifo = meta.get("fifo") == "1" and src == 1
        feeder = None
        if fifo:
            # the named input is a FIFO; a feeder thread writes the document in 2..4 pieces with pauses long enough for the
            # reader to drain the pipe: a reader that takes "nothing available right now" for end-of-file sees a prefix
            try:
                os.unlink(path)
            except OSError:
                pass
            os.mkfifo(path)
            doc = open(os.path.join(md, "doc.bin"), "rb").read()
            import random as _r
            import threading as _t
            rng = _r.Random(int((meta.get("chunk", "1 0").split() + ["1"])[0] or 1) + len(doc))
            npieces = rng.randint(2, 4)
            cuts = sorted(rng.randint(0, len(doc)) for _ in range(npieces - 1))
            pieces = [doc[a:b] for a, b in zip([0] + cuts, cuts + [len(doc)])]

            def feed():
                try:
                    fd = os.open(path, os.O_WRONLY)
                except OSError:
                    return
                try:
                    for i, pc in enumerate(pieces):
                        if i:
                            time.sleep(0.08)
                        try:
                            os.write(fd, pc)
                        except OSError:
                            break
                finally:
                    os.close(fd)
            feeder = _t.Thread(target=feed, daemon=True)
        elif have_file:
            shutil.copyfile(os.path.join(md, "doc.bin"), path)
        subst = lambda x: x.replace("<FILE>", path).replace("<MISSING>", os.path.join(self.fs, "does-not-exist.in")).replace("<DIR>", self.fs)
        unesc = lambda x: x.replace("\\\\", "\0").replace("\\n", "\n").replace("\0", "\\")
        pre, post = [subst(unesc(x)) for x in pre], [subst(unesc(x)) for x in post]
        argv = ["gm2calc.x"] + pre + (["--%s-input-file=%s" % (meta.get("type", "slha"), source)] if src != 5 else []) + post
        cs, cm = (meta.get("chunk", "0 0").split() + ["0", "0"])[:2]
        # the process environment of the real process mirrors simulated_env() of scenario.hpp
        envmode = int(meta.get("env", "0") or 0)
        names = ["HOME", "PATH", "LANG", "LC_ALL", "LC_NUMERIC", "USER", "LOGNAME", "TMPDIR", "PWD", "SHELL", "TERM", "COLUMNS", "LINES", "GM2CALC_VERBOSE", "NO_COLOR"]
        if envmode == 1:
            env = {}
        elif envmode == 2:
            env = {n: "" for n in names}
        elif envmode == 3:
            env = {n: "e" * 4096 for n in names}
        elif envmode == 4:
            odd = {"HOME": "~", "TMPDIR": b"/nonexistent/\xff", "COLUMNS": "-1", "LANG": "de_DE.UTF-8", "LC_ALL": "de_DE.UTF-8", "LC_NUMERIC": "de_DE.UTF-8"}
            env = {n: odd.get(n, "\n") for n in names}
        else:
            env = {"HOME": "/home/user", "PATH": "/usr/bin:/bin", "LANG": "C", "USER": "user", "LOGNAME": "user", "TMPDIR": "/tmp", "PWD": "/", "SHELL": "/bin/sh", "TERM": "dumb"}
        env["CLISIM_MAXITER"] = meta.get("maxiter", "0")
        env["CLISIM_SHIM"] = "%s %s %s %s %s %s" % (cs, cm, meta.get("readerr", "-1"), meta.get("eintr", "-1"), meta.get("sinkfail_out", "-1"), meta.get("sinkfail_err", "-1"))
        env["UBSAN_OPTIONS"] = ENV["UBSAN_OPTIONS"]
        exe = binary or self.l2
        cmd = (wrapper or []) + [exe] + argv[1:]
        try:
            argv_b = [a.encode("utf-8", "surrogateescape") for a in cmd]
            if feeder:
                feeder.start()
            if meta.get("stdinfile", "0") == "1":
                with open(os.path.join(md, "doc.bin"), "rb") as stdin:   # stdin is a regular file
                    p = subprocess.run(argv_b, stdin=stdin, stdout=subprocess.PIPE, stderr=subprocess.PIPE, env=env, timeout=timeout,
                                       executable=(wrapper[0] if wrapper else exe))
            else:                                                        # stdin is a pipe
                p = subprocess.run(argv_b, input=open(os.path.join(md, "doc.bin"), "rb").read(), stdout=subprocess.PIPE, stderr=subprocess.PIPE, env=env, timeout=timeout,
                                   executable=(wrapper[0] if wrapper else exe))
            rc, out, err = p.returncode, p.stdout, p.stderr
        except subprocess.TimeoutExpired:
            rc, out, err = None, b"", b""
        finally:
            if feeder:
                # a program that never opened the FIFO leaves the feeder blocked in open(): open it ourselves once
                try:
                    fdr = os.open(path, os.O_RDONLY | os.O_NONBLOCK)
                    feeder.join(2.0)
                    os.close(fdr)
                except OSError:
                    pass
            if have_file:
                try:
                    os.unlink(path)
                except OSError:
                    pass
        l1out = open(os.path.join(md, "l1.out"), "rb").read()
        l1err = open(os.path.join(md, "l1.err"), "rb").read()
        faults = {k: int(meta.get(k, "-1")) for k in ("readerr", "eintr", "sinkfail_out", "sinkfail_err")}
        # comparable with L1 only where both layers can express the same faults: glibc reads stdin without going
        # through the interposable read(), so read errors exist in L1 for stdin only and in L2 for files only
        comparable = faults["sinkfail_out"] < 0 and faults["sinkfail_err"] < 0 and faults["readerr"] < 0 and l1sig in ("OK",)
        # argv[0] differs ("gm2calc.x" vs. the path of the L2 binary): normalise
        norm = lambda b: b.replace(exe.encode(), b"gm2calc.x")
        l1out, l1err = norm(l1out), norm(l1err)
        return {"rc": rc, "out": out, "err": err, "l1_status": int(meta.get("status", "0")), "l1_sig": l1sig, "l1_out": l1out, "l1_err": l1err,
                "comparable": comparable, "agree": (rc == int(meta.get("status", "0")) and norm(out) == l1out and norm(err) == l1err),
                "faults": faults, "src": src, "fifo": fifo}


def has_spinfo_34(out):
    """same rule as clisim.cpp: an entry 3 or 4 inside a block named SPINFO (SLHAea block definition rules)"""
    inside = False
    for l in out.split(b"\n"):
        t = l.split()
        if not t:
            continue
        if len(t) >= 2 and not t[1].startswith(b"#") and t[0].lower() in (b"block", b"decay"):
            inside = t[1].lower() == b"spinfo"
        elif inside and t[0] in (b"3", b"4") and len(t) > 1:
            return True
    return False


def l2_sig(r):
    """C14 verdict on a real-process execution"""
    if r.get("l1_died"):
        return None
    rc = r["rc"]
    if r.get("fifo") and r.get("comparable") and not r.get("agree") and rc in (0, 1):
        # same bytes, once as a regular file (L1) and once through a FIFO in pieces (L2): different result
        return "l2:delivery_dependent_output"
    if rc is None:
        return "l2:hang"
    if rc < 0:
        return "l2:signal%d" % (-rc)
    if rc in (76, 77, 78):
        return "l2:" + {76: "leak", 77: "asan", 78: "ubsan"}[rc]
    if rc not in (0, 1):
        return "l2:status%d" % rc
    if rc == 1 and r["faults"]["sinkfail_out"] < 0 and r["faults"]["sinkfail_err"] < 0:
        if not r["err"].strip() and not has_spinfo_34(r["out"]):
            return "l2:silent_failure"
    return ""


def main(a):
    t0 = time.time()
    thorough = a.tier == "thorough"
    l1, l2, plain = build_engines(want_plain=True)
    t_build = time.time() - t0
    manifest, ncorpus = corpus_manifest()
    nw = a.workers or min(16, os.cpu_count() or 8)
    fsroot = tempfile.mkdtemp(prefix="clisim-fs-", dir=RUN)
    import itertools
    counter = itertools.count(1)

    def wargs():
        return [manifest, os.path.join(fsroot, "w%05d" % next(counter))]  # fixed width: path lengths must not depend on the worker

    harness_errors = []
    try:
        if a.replay:
            rep = json.load(open(a.replay))
            if rep.get("engine") == "clisim-twin":
                x = orch.exec_plan(l1, rep["ops"], ENV_A, args=wargs)
                y = orch.exec_plan(TWIN, rep["ops"], ENV_Z, args=wargs)
                got = "uninitialised_read" if x["hash"] != y["hash"] else "OK"
            elif rep.get("engine") == "clisim-vg":
                got = orch.exec_plan(VG, rep["ops"], ENV_VG, args=wargs, timeout=1200)["sig"] if VG else "valgrind not available"
            elif rep.get("engine") == "clisim-valgrind":
                r = L2Runner(l1, l2, manifest, "rp")
                try:
                    res = r.run(rep["ops"], binary=plain, wrapper=[shutil.which("valgrind"), "-q", "--error-exitcode=75"], timeout=900)
                    got = "valgrind" if res.get("rc") == 75 else "OK"
                finally:
                    r.close()
            elif rep.get("engine") == "clisim-l2":
                r = L2Runner(l1, l2, manifest, "rp")
                try:
                    got = l2_sig(r.run(rep["ops"]))
                finally:
                    r.close()
            else:
                got = orch.exec_plan(l1, rep["ops"], ENV, args=wargs)["sig"]
            print("replay %s: expected %s, got %s" % (a.replay, rep.get("signature"), got))
            if orch.same_violation(got, rep.get("signature")):
                print("VIOLATION property=%s replay=%s" % (PROP, a.replay))
                return 1
            return 0

        orch.clean_replays(PROP)
        w = orch.Worker(l1, 98, ENV, args=wargs)
        lines, death = orch.command(w, "COUNT")
        w.close()
        if death is not None:
            # the program cannot even process the intact corpus within the calibration budget, or crashes on it
            print("HARNESS-NOTE calibration on the intact corpus failed: %s" % orch.cause_of(death["rc"]))
        counts = {l.split()[1]: int(l.split()[2]) for l in lines if l.startswith("COUNT ")}
        budget = [l.split()[1:] for l in lines if l.startswith("BUDGET ")]
        budget = (int(budget[0][0]), int(budget[0][1])) if budget else (0, 0)

        def run_batch_args(binary, kind, seed, first, count, nworkers, deadline):
            return orch.run_batch(binary, kind, seed, first, count, nworkers, ENV, chunk=400, deadline=deadline, args=wargs)

        def batch(kind, seed, first, count, deadline=None):
            return run_batch_args(l1, kind, seed, first, count, nw, deadline)

        parts = {}
        t1 = time.time()
        pk, tk = ("PREFIX", "TOKEN") if thorough else ("PREFIXQ", "TOKENQ")
        parts["corpus"] = batch("CORPUS", 0, 0, counts.get("CORPUS", 0))
        parts["prefix"] = batch(pk, 0, 0, counts.get(pk, 0))
        parts["token"] = batch(tk, 0, 0, counts.get(tk, 0))
        ck = "CONFIG" if thorough else "CONFIGQ"
        parts["config"] = batch(ck, 0, 0, counts.get(ck, 0))
        parts["arglen"] = batch("ARGLEN", 0, 0, counts.get("ARGLEN", 0))
        parts["cmdline"] = batch("CMDLINE", 0, 0, counts.get("CMDLINE", 0))
        parts["env"] = batch("ENV", 0, 0, counts.get("ENV", 0))
        bk = "BLOCKS" if thorough else "BLOCKSQ"
        parts["blocks"] = batch(bk, 0, 0, counts.get(bk, 0))
        parts["boundary"] = batch("BOUNDARY", 0, 0, counts.get("BOUNDARY", 0))
        sk = "SCALE" if thorough else "SCALEQ"
        parts["scale"] = batch(sk, 0, 0, counts.get(sk, 0))
        parts["knob"] = batch("KNOB", 0, 0, counts.get("KNOB", 0))
        t_enum = time.time() - t1
        t1 = time.time()
        if thorough:
            deadline = time.time() + 60 * (a.minutes if a.minutes is not None else 30)
            rnd = {"stats": {}, "candidates": [], "hashes": {}, "executed": 0, "deaths": 0, "notes": []}
            first = 0
            step = 40000 * nw
            while time.time() < deadline and len(rnd["candidates"]) < 2000:
                part = batch("RUNS", a.seed, first, step, deadline)
                first += step
                orch.merge_stats(rnd["stats"], part["stats"])
                rnd["candidates"] += part["candidates"]
                rnd["hashes"].update(part["hashes"])
                rnd["executed"] += part["executed"]
                rnd["deaths"] += part["deaths"]
                if part.get("stopped_early"):
                    rnd["stopped_early"] = True
                    break
        else:
            rnd = batch("RUNS", a.seed, 0, 20000)
        parts["random"] = rnd
        parts["light"] = batch("LIGHT", a.seed, 0, 4000 if not thorough else 400000)
        t_rand = time.time() - t1

        # determinism gate: same runs, other processes, one worker
        ngate = 1024 if not thorough else 8192
        g = run_batch_args(l1, "RUNS", a.seed, 0, ngate, 1 if not thorough else 4, None)
        mism = [r for r, h in g["hashes"].items() if r in rnd["hashes"] and rnd["hashes"][r] != h]
        compared = len([r for r in g["hashes"] if r in rnd["hashes"]])
        reuse_artefacts = 0
        if mism:
            # the program under test runs as one process per invocation; the in-process workers execute thousands of
            # runs per process.  If two fresh processes agree with each other on such a run, the difference comes from
            # state the program legitimately keeps for the life of a process (not a harness fault, not a violation).
            for r in sorted(mism)[:8]:
                pl = orch.dump_plan(l1, "DUMP RUNS %d %d" % (a.seed, r), ENV, args=wargs)
                x, y = orch.exec_plan(l1, pl, ENV, args=wargs), orch.exec_plan(l1, pl, ENV, args=wargs)
                if x["hash"] != y["hash"]:
                    harness_errors.append("output hash of run %d differs between two fresh-process executions (%s / %s)" % (r, x["hash"], y["hash"]))
                else:
                    reuse_artefacts += 1
            print("NOTE %d run(s) gave different output in long-lived workers but identical output in fresh processes (state kept for the life of a process)" % len(mism))
        if sorted((c["run"], c["sig"]) for c in g["candidates"]) != sorted((c["run"], c["sig"]) for c in rnd["candidates"] if c["run"] < ngate) and not (g["stopped_early"] or rnd.get("stopped_early")):
            harness_errors += orch.gate_candidate_difference(g["candidates"], [c for c in rnd["candidates"] if c["run"] < ngate],
                                                             lambda c: orch.dump_plan(l1, "DUMP RUNS %d %d" % (a.seed, c["run"]), ENV, args=wargs), l1, ENV, args=wargs)

        # ---- uninitialised-memory twins: the same runs in a build whose uninitialised stack and heap
        # contents are zero instead of a pattern; any difference in (status, stdout, stderr) is a read of
        # uninitialised memory
        t1 = time.time()
        twin = {"runs": 0, "differences": 0}
        twin_cands = []
        nlight = 4000 if not thorough else 100000
        for kind, seed, count in (("CORPUS", 0, counts.get("CORPUS", 0)), ("LIGHT", a.seed, nlight), ("TOKENQ", 0, counts.get("TOKENQ", 0)), ("BLOCKSQ", 0, counts.get("BLOCKSQ", 0))):
            ra = orch.run_batch(l1, kind, seed, 0, count, nw, ENV_A, chunk=400, args=wargs, init_cmds=("HASHALL 1",))
            rz = orch.run_batch(TWIN, kind, seed, 0, count, nw, ENV_Z, chunk=400, args=wargs, init_cmds=("HASHALL 1",))
            for r, h in ra["hashes"].items():
                if r in rz["hashes"]:
                    twin["runs"] += 1
                    if rz["hashes"][r] != h:
                        twin["differences"] += 1
                        twin_cands.append({"run": r, "kind": kind, "seed": seed})
        t_twin = time.time() - t1

        # ---- uninitialised-memory clause, second instrument: the un-sanitised program in-process under valgrind
        t1 = time.time()
        vgin = {"runs": 0, "errors": 0}
        vg_cands = []
        if VG and not orch.saturated():
            for kind, seed, count in (("CORPUS", 0, counts.get("CORPUS", 0)), ("EDGE", 0, counts.get("EDGE", 0)), ("BLOCKSQ", 0, counts.get("BLOCKSQ", 0)),
                                      ("LIGHT", a.seed, 600 if not thorough else 20000), ("RUNS", a.seed, 400 if not thorough else 20000)):
                rv = orch.run_batch(VG, kind, seed, 0, count, nw, ENV_VG, chunk=100, args=wargs, stall=900)
                vgin["runs"] += rv["executed"]
                for c in rv["candidates"]:
                    if c["sig"].endswith(":valgrind"):
                        vgin["errors"] += 1
                        vg_cands.append(dict(c, kind=kind, seed=seed))
        t_vgin = time.time() - t1

        kinds = {"corpus": "CORPUS", "prefix": pk, "token": tk, "random": "RUNS", "light": "LIGHT", "config": ck, "arglen": "ARGLEN", "cmdline": "CMDLINE", "env": "ENV", "blocks": bk, "boundary": "BOUNDARY", "scale": sk, "knob": "KNOB"}
        cands = []
        for name, part in parts.items():
            for c in part["candidates"]:
                cands.append(dict(c, kind=kinds[name], seed=a.seed if name in ("random", "light") else 0))

        def get_plan(c):
            return orch.dump_plan(l1, "DUMP %s %d %d" % (c["kind"], c["seed"], c["run"]), ENV, args=wargs)

        viol, known_hits, herr = orch.process_candidates(PROP, "clisim", l1, cands, get_plan, ENV, args=wargs, fresh_process_is_truth=True)
        harness_errors += herr
        if vg_cands:
            v2, k2, h2 = orch.process_candidates(PROP, "clisim-vg", VG, vg_cands, get_plan, ENV_VG, args=wargs, exec_timeout=1200, min_budget=60, max_report=4)
            viol += v2
            harness_errors += h2
        for c in twin_cands[:3]:
            plan = get_plan(c)

            def differs(ops):
                x = orch.exec_plan(l1, ops, ENV_A, args=wargs)
                y = orch.exec_plan(TWIN, ops, ENV_Z, args=wargs)
                return x["hash"] != y["hash"] and x["hash"] != "dead" and y["hash"] != "dead"
            if not (differs(plan) and differs(plan)):
                print("NOTE twin difference of %s run %d is not shown by fresh processes (state kept for the life of a worker process); dropped" % (c["kind"], c["run"]))
                continue
            small, ncalls = orch.ddmin(plan, differs, budget=120)
            rdir = os.path.join(orch.OUT, "replays", PROP)
            os.makedirs(rdir, exist_ok=True)
            path = os.path.join(rdir, "uninitialised_read-%s-run%d.json" % (c["kind"], c["run"]))
            x = orch.exec_plan(l1, small, ENV_A, args=wargs)
            y = orch.exec_plan(TWIN, small, ENV_Z, args=wargs)
            json.dump({"property": PROP, "engine": "clisim-twin", "signature": "uninitialised_read", "run_index": c["run"], "kind": c["kind"], "seed": c["seed"], "ops": small,
                       "original_length": len(plan), "trace": ["pattern build: " + " ; ".join(x["trace"]), "zero build: " + " ; ".join(y["trace"])]}, open(path, "w"), indent=1)
            viol.append({"sig": "uninitialised_read", "path": path, "ops": len(small), "from_ops": len(plan), "count": twin["differences"]})
            break

        # ---- layer L2: the real executable as a process, same plans
        t1 = time.time()
        nl2 = 5000 if thorough else 64
        l2stats = {"runs": 0, "fifo_runs": 0, "compared": 0, "agree": 0, "eintr": 0, "readerr_stdin": 0, "readerr_file": 0, "sinkfail": 0, "short_reads": 0, "via_path": 0, "status": {}}
        l2viol = {}
        disagreements = []

        def l2_worker(k):
            r = L2Runner(l1, l2, manifest, "w%d" % k)
            out = []
            try:
                for i in range(k, nl2, nw):
                    if l2hangs[0] >= 3 or orch.saturated():
                        break  # every hanging real process costs a full timeout: three are enough
                    plan = orch_dump_cached(r, i)
                    res = r.run(plan)
                    if res.get("rc", 0) is None:
                        l2hangs[0] += 1
                    out.append((i, plan, res))
            finally:
                r.close()
            return out

        l2hangs = [0]

        nfifo = counts.get("FIFO", 0)
        nl2 += nfifo   # every FIFO plan first, then the seeded sample

        def orch_dump_cached(r, i):
            if i < nfifo:
                lines, _ = orch.command(r.w, "DUMP FIFO 0 %d" % i)
                return [l[3:] for l in lines if l.startswith("OP ")]
            lines, _ = orch.command(r.w, "DUMP %s %d %d" % ("LIGHT" if i % 2 else "RUNS", a.seed, 1000000 + i))
            return [l[3:] for l in lines if l.startswith("OP ")]

        with cf.ThreadPoolExecutor(max_workers=nw) as ex:
            for chunk in ex.map(l2_worker, range(nw)):
                for i, plan, res in chunk:
                    if res.get("l1_died"):
                        continue
                    l2stats["runs"] += 1
                    f = res["faults"]
                    l2stats["eintr"] += f["eintr"] >= 0
                    l2stats["readerr_stdin"] += f["readerr"] >= 0 and res["src"] == 0
                    l2stats["readerr_file"] += f["readerr"] >= 0 and res["src"] == 1
                    l2stats["sinkfail"] += f["sinkfail_out"] >= 0 or f["sinkfail_err"] >= 0
                    l2stats["via_path"] += res["src"] == 1
                    l2stats["fifo_runs"] += bool(res.get("fifo"))
                    l2stats["status"][str(res["rc"])] = l2stats["status"].get(str(res["rc"]), 0) + 1
                    s = l2_sig(res)
                    if s:
                        l2viol.setdefault(s, []).append((i, plan, res))
                    if res["comparable"]:
                        l2stats["compared"] += 1
                        if res["agree"]:
                            l2stats["agree"] += 1
                        elif not s:
                            disagreements.append((i, plan, res))
        t_l2 = time.time() - t1
        # a disagreement may come from state the program keeps for the life of a process (the L1 side of a runner
        # executes many plans in one process): decide with an L1 worker that has executed nothing before
        confirmed = []
        for i, plan, res in disagreements[:6]:
            rr = L2Runner(l1, l2, manifest, "dg")
            try:
                again = rr.run(plan)
            finally:
                rr.close()
            if again.get("l1_died") or (again["comparable"] and not again["agree"]):
                confirmed.append((i, plan, again if not again.get("l1_died") else res))
            else:
                l2stats["process_reuse_artefacts"] = l2stats.get("process_reuse_artefacts", 0) + 1
        if len(disagreements) > 6 and confirmed:
            confirmed += disagreements[6:]
        disagreements = confirmed
        for i, plan, res in disagreements[:3]:
            harness_errors.append("L1 and L2 disagree on random plan %d: L1 status %s, L2 status %s; stdout equal: %s; stderr equal: %s; plan: %s" %
                                  (1000000 + i, res["l1_status"], res["rc"], res["out"] == res["l1_out"], res["err"] == res["l1_err"], plan))
        rdir = os.path.join(orch.OUT, "replays", PROP)
        for s, lst in sorted(l2viol.items()):
            i, plan, res = lst[0]
            # confirm in a second fresh process, then minimise
            rr = L2Runner(l1, l2, manifest, "cf")
            try:
                if l2_sig(rr.run(plan)) != s:
                    harness_errors.append("L2 violation %s of plan %d did not reproduce" % (s, 1000000 + i))
                    continue
                small, ncalls = orch.ddmin(plan, lambda ops: l2_sig(rr.run(ops)) == s, budget=150 if s != "l2:hang" else 8)
            finally:
                rr.close()
            os.makedirs(rdir, exist_ok=True)
            path = os.path.join(rdir, "%s-run%d.json" % (s.replace(":", "_"), 1000000 + i))
            json.dump({"property": PROP, "engine": "clisim-l2", "signature": s, "run_index": 1000000 + i, "seed": a.seed, "ops": small, "original_length": len(plan),
                       "stderr": res["err"].decode(errors="replace")[-3000:]}, open(path, "w"), indent=1)
            viol.append({"sig": s, "path": path, "ops": len(small), "from_ops": len(plan), "count": len(lst)})

        # ---- thorough: valgrind sample for the "uninitialised memory" clause
        vg = {"runs": 0, "errors": 0}
        if plain and shutil.which("valgrind"):
            nedge = counts.get("EDGE", 0)
            nvg = (300 if thorough else 32) + nedge  # every curated edge document, then the seeded sample

            def vg_worker(k):
                r = L2Runner(l1, l2, manifest, "v%d" % k)
                out = []
                try:
                    for i in range(k, nvg, nw):
                        if l2hangs[0] >= 3 or orch.saturated():
                            break
                        dump = ("DUMP EDGE 0 %d" % i) if i < nedge else ("DUMP %s %d %d" % ("LIGHT" if i % 4 else "RUNS", a.seed, 2000000 + i))
                        plan = [l[3:] for l in orch.command(r.w, dump)[0] if l.startswith("OP ")]
                        res = r.run(plan, binary=plain, wrapper=[shutil.which("valgrind"), "-q", "--error-exitcode=75"], timeout=900)
                        out.append((i, plan, res))
                finally:
                    r.close()
                return out
            with cf.ThreadPoolExecutor(max_workers=nw) as ex:
                for chunk in ex.map(vg_worker, range(nw)):
                    for i, plan, res in chunk:
                        if res.get("l1_died"):
                            continue
                        vg["runs"] += 1
                        if res["rc"] == 75:
                            vg["errors"] += 1
                            os.makedirs(rdir, exist_ok=True)
                            path = os.path.join(rdir, "valgrind-run%d.json" % (2000000 + i))
                            json.dump({"property": PROP, "engine": "clisim-valgrind", "signature": "valgrind", "run_index": 2000000 + i, "seed": a.seed, "ops": plan,
                                       "stderr": res["err"].decode(errors="replace")[-4000:]}, open(path, "w"), indent=1)
                            viol.append({"sig": "valgrind:memcheck", "path": path, "ops": len(plan), "from_ops": len(plan), "count": 1})

        # ---- evidence
        stats = {}
        for part in parts.values():
            orch.merge_stats(stats, part["stats"])
        counters = stats.get("counters", {})
        classes = stats.get("classes", {})
        nruns = sum(p["executed"] for p in parts.values())
        wall = time.time() - t0
        samples = []
        for kind, idx in (("RUNS", 0), ("RUNS", 1), (pk, counts.get(pk, 1) // 3), (tk, counts.get(tk, 1) // 2)):
            samples.append({"kind": kind, "index": idx, "seed": a.seed if kind == "RUNS" else 0,
                            "ops": orch.dump_plan(l1, "DUMP %s %d %d" % (kind, a.seed if kind == "RUNS" else 0, idx), ENV, args=wargs)})
        ev = {
            "property_id": PROP, "tier": a.tier, "seed": a.seed, "level": "exploration", "wall_s": round(wall, 2), "violations": len(viol),
            "coverage": {
                "evaluations": nruns + l2stats["runs"] + vg["runs"],
                "distinct_nontrivial": len(classes),
                "rule": "evaluations = simulated program executions (L1 in-process + L2 real process + valgrind). distinct_nontrivial = number of distinct "
                        "(exit status / first stderr line class / output writer reached / input type / exit() path | fault kinds applied) tuples among runs whose input "
                        "is not byte-identical to a shipped file or that carry an environment fault",
                "samples": samples,
                "exhaustive": False,
                "exhaustive_subspaces": {
                    "crash_points": {"kind": pk, "runs": parts["prefix"]["executed"], "of": counts.get(pk, 0),
                                     "what": ("every byte offset" if thorough else "every line start of every file and every byte offset of input/example.*") +
                                             " of every shipped input file as truncation point, via stdin and via path", "complete": parts["prefix"]["executed"] == counts.get(pk, 0)},
                    "single_token_replacement": {"kind": tk, "runs": parts["token"]["executed"], "of": counts.get(tk, 0),
                                                 "what": "every token of every data line of " + ("every shipped file" if thorough else "input/example.*") + " x 60 replacement spellings (non-finite, overflowing, denormal, huge integers, malformed, finite with extreme exponents) incl. variants glued to the preceding token on block-definition lines x force_output on/off",
                                                 "complete": parts["token"]["executed"] == counts.get(tk, 0)},
                    "argument_lengths": {"kind": "ARGLEN", "runs": parts["arglen"]["executed"], "of": counts.get("ARGLEN", 0),
                                         "what": "every length 1..640 and ten larger ones (to 65536) of: an unopenable input file name (one component / nested), a long unknown option, a long second input option, a long bare word; x 3 input types x {SLHA-type, detailed} output",
                                         "complete": parts["arglen"]["executed"] == counts.get("ARGLEN", 0)},
                    "command_lines": {"kind": "CMDLINE", "runs": parts["cmdline"]["executed"], "of": counts.get("CMDLINE", 0),
                                      "what": "every command line of one, two or three atoms out of an alphabet of 36 (help/version options, the three input options with stdin / existing file / missing file / directory / empty name, misspelt, truncated, prefixed, doubled and decorated variants, empty and non-UTF-8 words)",
                                      "complete": parts["cmdline"]["executed"] == counts.get("CMDLINE", 0)},
                    "process_environments": {"kind": "ENV", "runs": parts["env"]["executed"], "of": counts.get("ENV", 0),
                                             "what": "every command line of one or two atoms, and `~`-spelt input names for each input type, under each of four non-ordinary process environments (every variable unset; every common variable empty; 4096 characters long; odd values); getenv() is answered by the simulator, the names asked for are listed as probe_getenv_*",
                                             "complete": parts["env"]["executed"] == counts.get("ENV", 0)},
                    "present_and_absent_blocks": {"kind": bk, "runs": parts["blocks"]["executed"], "of": counts.get(bk, 0),
                                                  "what": "every block of " + ("every shipped file" if thorough else "input/example.* and every fourth test point") + " removed / reduced to its definition line / reduced to its last entry, every pair of blocks of input/example.* removed together, and every block of input/example.* renamed to / cloned under each of 78 block names of the SLHA conventions and common spectrum generators (also compared between the uninitialised-memory twins)",
                                                  "complete": parts["blocks"]["executed"] == counts.get(bk, 0)},
                    "boundary_documents": {"kind": "BOUNDARY", "runs": parts["boundary"]["executed"], "of": counts.get("BOUNDARY", 0),
                                           "what": "one CR / one NUL inserted at every offset of input/example.*; the examples padded to 64 KiB with one special byte (CR, LF, NUL, #, space, letter) at every offset 2^k-2..2^k+1, k=8..16; %d curated edge documents (DOS/Mac line endings, torn between CR and LF, no final newline, torn inside the first block header, lengths exactly at 2^k-1, 2^k, 2^k+1); each via stdin and via path" % counts.get("EDGE", 0),
                                           "complete": parts["boundary"]["executed"] == counts.get("BOUNDARY", 0)},
                    "moderately_scaled_values": {"kind": sk, "runs": parts["scale"]["executed"], "of": counts.get(sk, 0),
                                                 "what": "every numeric value token of every data line of " + ("every shipped file" if thorough else "input/example.*") + " multiplied by each of -1, 0.001, 0.1, 0.5, 0.9, 1.1, 2, 10, 1000, 1e6 (documents stay well-formed; the physics point moves) x force_output on/off",
                                                 "complete": parts["scale"]["executed"] == counts.get(sk, 0)},
                    "lowered_iteration_budget": {"kind": "KNOB", "runs": parts["knob"]["executed"], "of": counts.get("KNOB", 0),
                                                 "what": "iteration budget of the DR-bar to on-shell conversion lowered to 1, 2, 3 and 10 (guarded hook in src/gm2calc.cpp; shipped value 1000, never raised) on every intact SLHA-type shipped file and on every moderately scaled value of input/example.slha",
                                                 "complete": parts["knob"]["executed"] == counts.get("KNOB", 0)},
                    "config_combinations": {"kind": ck, "runs": parts["config"]["executed"], "of": counts.get(ck, 0),
                                            "what": "all 480 valid GM2CalcConfig combinations (5 output formats x 3 loop orders x 2^5 switches) appended to " + ("every shipped file" if thorough else "input/example.* and three problem points"),
                                            "complete": parts["config"]["executed"] == counts.get(ck, 0)},
                },
                "corpus_files": ncorpus, "random_plans": rnd["executed"],
                "simulated_time": {"unit": "function entries of repository code (logical step clock)", "total": counters.get("steps", 0),
                                   "budget_per_run": budget[0], "largest_intact_corpus_run": budget[1]},
                "runs_per_hour": int(nruns / max(wall - t_build, 1e-9) * 3600),
                "cpu_time_per_run_histogram": dict({k[4:]: v for k, v in counters.items() if k.startswith("cpu_")}, watchdog_s=int(os.environ.get("VERIF_WATCHDOG_S", "0") or 0) or 20,
                                                   what="CPU time (user+system) of single simulated program executions; a run above the watchdog limit ends the worker and is reported as death:main:cpu_watchdog"),
                "modes": {k[5:]: v for k, v in counters.items() if k.startswith("mode_")},
                "fault_kinds_fired": {k[6:]: v for k, v in counters.items() if k.startswith("fault_")},
                "reach_probes": {k[6:]: v for k, v in counters.items() if k.startswith("probe_")},
                "exit_status_histogram": {k[7:]: v for k, v in counters.items() if k.startswith("status_")},
                "layer_L2": dict(l2stats, what="real executable (ASan+UBSan+LSan) as a process with read()/write() shim: short reads, EINTR, EIO, ENOSPC; stdin as pipe or regular file; named input as regular file or as FIFO fed in pieces with pauses; process environment as in the plan", wall_s=round(t_l2, 1)),
                "valgrind_sample": vg,
                "valgrind_in_process": dict(vgin, wall_s=round(t_vgin, 1), what="the program WITHOUT sanitizers executed in-process (same simulated world) under valgrind memcheck, thousands of plans per valgrind process: intact corpus, the curated edge documents, the block presence/rename/clone enumeration, seeded LIGHT and random plans; the first memcheck error ends the worker and is attributed to the run"),
                "uninitialised_memory_twins": dict(twin, what="runs (intact corpus, LIGHT plans, token replacements on input/example.*) executed in two builds whose uninitialised stack (-ftrivial-auto-var-init=pattern|zero) and fresh heap (ASan malloc_fill_byte) contents differ; outputs compared", wall_s=round(t_twin, 1)),
                "determinism_gate": {"runs_compared": compared, "hash_mismatches": len(mism), "of_which_process_reuse_artefacts_confirmed_by_fresh_processes": reuse_artefacts},
                "worker_deaths": sum(p["deaths"] for p in parts.values()),
                "real_vs_stub": {"real": ["src/gm2calc.cpp main() and all of libgm2calc from the working tree (ASan+UBSan)", "libstdc++ string/stream formatting", "L2: the whole process incl. libstdc++ filebuf, exit(), LeakSanitizer"],
                                 "simulated": ["argv", "process environment (getenv)", "stdin/stdout/stderr stream buffers (L1) / read(2), write(2) results (L2)", "file system entry behind the input option", "exit() (L1: unwinds to the simulator)", "clock: logical step counter"]},
                "known_findings_seen": known_hits,
                "timing_s": {"build": round(t_build, 1), "enumerations": round(t_enum, 1), "random": round(t_rand, 1), "l2": round(t_l2, 1)},
            },
            "assumptions": ["no allocation-failure or signal-delivery faults (no property states behaviour under them)",
                            "behaviour under a failing output sink is only required to be crash-free",
                            "MSan unusable with uninstrumented libstdc++: the uninitialised-memory clause rests on the valgrind sample (32 plans quick, 300 thorough) plus ASan/UBSan"],
        }
        orch.write_evidence(PROP, ev)
        print("C14 clisim: %d L1 runs (%d crash points, %d token replacements, %d random plans), %d L2 runs (%d/%d agree with L1), %d distinct outcome classes, %.0f s" %
              (nruns, parts["prefix"]["executed"], parts["token"]["executed"], rnd["executed"], l2stats["runs"], l2stats["agree"], l2stats["compared"], len(classes), wall))
        for k in known_hits:
            print("KNOWN-FINDING: property=%s %s" % (PROP, k["what"]))
        for v in viol:
            print("VIOLATION property=%s replay=%s   (%s; %d ops, minimised from %d; %d occurrence(s))" % (PROP, v["path"], v["sig"], v["ops"], v["from_ops"], v["count"]))
        if harness_errors:
            for h in harness_errors:
                print("HARNESS-ERROR property=%s %s" % (PROP, h))
            return 2
        return 1 if viol else 0
    finally:
        shutil.rmtree(fsroot, ignore_errors=True)
        try:
            os.unlink(manifest)
        except OSError:
            pass
