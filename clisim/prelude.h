// Force-included (-include) in front of /repo/src/gm2calc.cpp when it is
// compiled for clisim: main() becomes gm2calc_main() and exit() unwinds to the
// simulator instead of ending the process.  All standard headers the program
// could plausibly use are included first so that the macros cannot touch them.
#ifndef CLISIM_PRELUDE_H
#define CLISIM_PRELUDE_H
#include <algorithm>
#include <cmath>
#include <complex>
#include <cstdio>
#include <cstdlib>
#include <cstring>
#include <exception>
#include <fstream>
#include <functional>
#include <iomanip>
#include <iostream>
#include <limits>
#include <map>
#include <memory>
#include <sstream>
#include <stdexcept>
#include <string>
#include <tuple>
#include <utility>
#include <vector>
#include <boost/algorithm/string/classification.hpp>
#include <boost/algorithm/string/join.hpp>
#include <boost/algorithm/string/predicate.hpp>
#include <boost/algorithm/string/split.hpp>
#include <boost/lexical_cast.hpp>
#include <Eigen/Core>
#include <Eigen/SVD>
#include <Eigen/Eigenvalues>

namespace clisim {
struct ExitException { int code; };
[[noreturn]] void sim_exit(int code);
}
#define exit(code) ::clisim::sim_exit(code)
#define main gm2calc_main
#endif
