// Layer L2 of clisim: linked into the *real* gm2calc executable.  Interposes
// read()/write() in front of libc (real calls via dlsym(RTLD_NEXT)) and
// delivers, from the environment variable CLISIM_SHIM
//   "<chunk_seed> <chunk_max> <readerr> <eintr> <sinkfail_out> <sinkfail_err>"
// short reads, EINTR on the k-th read, EIO after <readerr> bytes, and
// ENOSPC/short writes on fd 1/2 after <sinkfail_*> bytes.  -1 disables a fault.
#ifndef _GNU_SOURCE
#define _GNU_SOURCE
#endif
#include <cerrno>
#include <cstdint>
#include <cstdio>
#include <cstdlib>
#include <dlfcn.h>
#include <unistd.h>

namespace {
struct State {
   bool init = false;
   uint64_t s[4]; unsigned chunk_max = 0; long readerr = -1, eintr = -1, sink[3] = {-1, -1, -1};
   long nread_calls = 0, bytes_read = 0, written[3] = {0, 0, 0};
   ssize_t (*real_read)(int, void*, size_t) = nullptr;
   ssize_t (*real_write)(int, const void*, size_t) = nullptr;
} g;
uint64_t splitmix(uint64_t& x) { uint64_t z = (x += 0x9e3779b97f4a7c15ULL); z = (z ^ (z >> 30)) * 0xbf58476d1ce4e5b9ULL; z = (z ^ (z >> 27)) * 0x94d049bb133111ebULL; return z ^ (z >> 31); }
uint64_t rotl(uint64_t x, int k) { return (x << k) | (x >> (64 - k)); }
uint64_t next() { const uint64_t r = rotl(g.s[1] * 5, 7) * 9, t = g.s[1] << 17; g.s[2] ^= g.s[0]; g.s[3] ^= g.s[1]; g.s[1] ^= g.s[2]; g.s[0] ^= g.s[3]; g.s[2] ^= t; g.s[3] = rotl(g.s[3], 45); return r; }
void init()
{
   if (g.init) return;
   g.init = true;
   g.real_read = (ssize_t (*)(int, void*, size_t))dlsym(RTLD_NEXT, "read");
   g.real_write = (ssize_t (*)(int, const void*, size_t))dlsym(RTLD_NEXT, "write");
   unsigned long long seed = 0; unsigned cm = 0; long re = -1, ei = -1, so = -1, se = -1;
   if (const char* e = getenv("CLISIM_SHIM")) sscanf(e, "%llu %u %ld %ld %ld %ld", &seed, &cm, &re, &ei, &so, &se);
   uint64_t x = seed; for (auto& v : g.s) v = splitmix(x);
   g.chunk_max = cm; g.readerr = re; g.eintr = ei; g.sink[1] = so; g.sink[2] = se;
}
}

extern "C" ssize_t read(int fd, void* buf, size_t n)
{
   init();
   if (fd == 1 || fd == 2) return g.real_read(fd, buf, n);
   const long call = g.nread_calls++;
   if (g.eintr >= 0 && call == g.eintr) { errno = EINTR; return -1; }
   if (g.readerr >= 0 && g.bytes_read >= g.readerr) { errno = EIO; return -1; }
   size_t want = n;
   if (g.chunk_max) { const size_t c = 1 + next() % g.chunk_max; if (c < want) want = c; }
   if (g.readerr >= 0 && (long)want > g.readerr - g.bytes_read) want = (size_t)(g.readerr - g.bytes_read);
   const ssize_t r = g.real_read(fd, buf, want);
   if (r > 0) g.bytes_read += r;
   return r;
}

extern "C" ssize_t write(int fd, const void* buf, size_t n)
{
   init();
   if ((fd == 1 || fd == 2) && g.sink[fd] >= 0) {
      const long room = g.sink[fd] - g.written[fd];
      if (room <= 0) { errno = ENOSPC; return -1; }
      if ((long)n > room) n = (size_t)room;
   }
   const ssize_t r = g.real_write(fd, buf, n);
   if (r > 0 && (fd == 1 || fd == 2)) g.written[fd] += r;
   return r;
}

extern "C" {
__attribute__((used, visibility("default"))) const char* __asan_default_options() { return "exitcode=77:detect_leaks=1:abort_on_error=0"; }
__attribute__((used, visibility("default"))) const char* __ubsan_default_options() { return "exitcode=78:print_stacktrace=0:halt_on_error=1"; }
__attribute__((used, visibility("default"))) const char* __lsan_default_options() { return "exitcode=76"; }
__attribute__((no_instrument_function)) void __cyg_profile_func_enter(void*, void*) {}
__attribute__((no_instrument_function)) void __cyg_profile_func_exit(void*, void*) {}
}

// tuning knob of the program (GM2CALC_VERIF hook in src/gm2calc.cpp): the real process takes it from the environment
extern "C" unsigned gm2calc_verif_max_iterations(unsigned shipped)
{
   const char* e = getenv("CLISIM_MAXITER");
   const long v = e ? atol(e) : 0;
   return (v > 0 && (unsigned long)v < shipped) ? (unsigned)v : shipped;
}
