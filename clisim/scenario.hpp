// clisim scenarios: a plan (explicit, shrinkable list of text ops) is interpreted
// into a Scenario = what the simulated world presents to the program:
// argv, the bytes behind the input source, how stdin delivers them, and the
// environment faults (read error, sink failure, EINTR).
#ifndef CLISIM_SCENARIO_HPP
#define CLISIM_SCENARIO_HPP

#include "../common/sim.hpp"

#include <algorithm>
#include <strings.h>
#include <string>
#include <vector>

namespace clisim {

struct CorpusFile { std::string rel; std::string type; std::string bytes; };

struct Corpus {
   std::vector<CorpusFile> files;
   /// manifest lines: "<type> <absolute path>"
   void load(const char* manifest)
   {
      for (auto& l : sim::read_plan_file(manifest)) {
         auto t = sim::split(l);
         if (t.size() < 2) continue;
         CorpusFile f; f.type = t[0]; f.rel = t[1];
         if (FILE* fp = std::fopen(t[1].c_str(), "rb")) {
            char buf[65536]; size_t n;
            while ((n = std::fread(buf, 1, sizeof buf, fp)) > 0) f.bytes.append(buf, n);
            std::fclose(fp);
         }
         files.push_back(f);
      }
   }
   int find(const std::string& rel) const
   {
      for (size_t i = 0; i < files.size(); ++i) if (files[i].rel == rel) return (int)i;
      // match by basename so that replay files survive a moved repository
      auto base = [](const std::string& s) { size_t p = s.rfind('/'); return p == std::string::npos ? s : s.substr(p + 1); };
      for (size_t i = 0; i < files.size(); ++i) if (base(files[i].rel) == base(rel)) return (int)i;
      return -1;
   }
};

enum SrcKind { SRC_STDIN, SRC_PATH, SRC_MISSING, SRC_DIR, SRC_EMPTYNAME, SRC_NONE, SRC_MISSING_LONG, SRC_TILDE };
/// simulated process environment (what getenv() answers): 0 ordinary, 1 empty (every variable unset), 2 every known
/// variable set to "", 3 every known variable 4096 characters long, 4 odd values
constexpr int N_ENV_MODES = 5;
static const char* const ENV_NAMES[] = {"HOME", "PATH", "LANG", "LC_ALL", "LC_NUMERIC", "USER", "LOGNAME", "TMPDIR", "PWD", "SHELL", "TERM", "COLUMNS", "LINES", "GM2CALC_VERBOSE", "NO_COLOR"};
inline const char* simulated_env(int mode, const std::string& name)
{
   static const std::string longv(4096, 'e');
   bool known = false; for (const char* n : ENV_NAMES) known = known || name == n;
   switch (mode) {
   case 1: return nullptr;
   case 2: return known ? "" : nullptr;
   case 3: return known ? longv.c_str() : nullptr;
   case 4: return !known ? nullptr : name == "HOME" ? "~" : name == "TMPDIR" ? "/nonexistent/\xff" : name == "COLUMNS" ? "-1" : name == "LANG" || name == "LC_ALL" || name == "LC_NUMERIC" ? "de_DE.UTF-8" : "\n";
   default: return name == "HOME" ? "/home/user" : name == "PATH" ? "/usr/bin:/bin" : name == "LANG" ? "C" : name == "USER" || name == "LOGNAME" ? "user" : name == "TMPDIR" ? "/tmp" : name == "PWD" ? "/" : name == "SHELL" ? "/bin/sh" : name == "TERM" ? "dumb" : nullptr;
   }
}

struct Scenario {
   std::string doc;
   std::string type = "slha";       ///< input-type option used
   SrcKind src = SRC_STDIN;
   std::vector<std::string> pre_args, post_args; ///< extra argv elements before/after the input option
   bool path_is_fifo = false;       ///< the named input is a FIFO fed in pieces with pauses (real-process layer; L1 reads the same bytes from a regular file)
   bool stdin_is_file = false;      ///< stdin is a regular file (seekable, size known) instead of a pipe
   unsigned max_iter_knob = 0;      ///< iteration budget of the on-shell conversion (0 = shipped value); only ever lowered
   int env_mode = 0;                ///< simulated process environment, see simulated_env()
   int tilde_kind = 0;              ///< SRC_TILDE: which spelling
   bool materialise_file = false;   ///< write the document to <dir>/input.in even if the input option does not name it (raw command lines refer to it)
   std::string longname;            ///< SRC_MISSING_LONG: name (relative to the simulated directory) of a file that cannot be opened
   uint64_t chunk_seed = 0; unsigned chunk_max = 0; ///< stdin delivery schedule (0 = all at once)
   long readerr = -1;               ///< input stream fails after this many bytes (-1 = never)
   long eintr = -1;                 ///< L2 only: EINTR on the k-th read
   long sinkfail_out = -1, sinkfail_err = -1; ///< sink accepts only this many bytes
   int cfg_known_format = -1;       ///< output format if the last op wrote a full, undamaged config block
   bool cfg_force = false;
   std::vector<std::string> fault_kinds; ///< which kinds of damage/fault the plan applied
   bool base_intact = true;         ///< document is byte-identical to a corpus file
   bool clean_doc = false;          ///< a shipped file plus harness-written (well-formed) additions only: every line is a comment, a block definition or an indented data line
};

inline std::vector<size_t> line_starts(const std::string& d)
{
   std::vector<size_t> s; s.push_back(0);
   for (size_t i = 0; i < d.size(); ++i) if (d[i] == '\n' && i + 1 < d.size()) s.push_back(i + 1);
   return s;
}

/// [begin,end) of whitespace separated tokens of a line, up to a '#'
inline std::vector<std::pair<size_t, size_t>> tokens_of(const std::string& d, size_t b, size_t e)
{
   std::vector<std::pair<size_t, size_t>> t;
   size_t i = b;
   while (i < e) {
      while (i < e && (d[i] == ' ' || d[i] == '\t' || d[i] == '\r')) ++i;
      if (i >= e || d[i] == '#') break;
      size_t j = i;
      while (j < e && !(d[j] == ' ' || d[j] == '\t' || d[j] == '\r' || d[j] == '#')) ++j;
      t.push_back({i, j});
      i = j;
   }
   return t;
}

static const char* const REPLACEMENTS[] = {"nan", "inf", "-inf", "1e400", "1e-400", "-0", "99999999999999999999", "1e300", "", "text",
                                           "1D3", "0x10", "1.5abc", "-1", "0", "2147483648", "-2147483649", "4294967297", "1e10",
                                           "-nan", "+", "1e", ".", "00000000000000000000000000000000000000001", "1e-320",
                                           "+1", "1e+", "1.e1", ".5", "1,5", "--1", "1_000", "0x1p3", "1#2", "1e0", "1.0", "NaN", "INF", "infinity", "nan(0x1)",
                                           "1.7976931348623159e308", "4.9e-324", "9223372036854775807", "9223372036854775808", "-9223372036854775809", "18446744073709551616",
                                           "2147483647", "-2147483648", "\xef\xbc\x91", "1e99999999999999999999",
                                           "1e20", "1e50", "1e100", "1e150", "1e-20", "1e-50", "1e-100", "-1e100", "1e-200", // finite, far from any physical scale: three-digit exponents in the results
                                           "111111111111111111111111111111111111111111111111111111111111111111111111111111111111111111111111111111111111111111111111111111111111111111111111111111111111111111111111111111111111111111111111111111111111111111111111111111111111111111111111111111111111111111111111111111111111111111111111111111111111111111111111111111111111111111111111111111111111111111111111.5"};
constexpr int N_REPL = sizeof(REPLACEMENTS) / sizeof(REPLACEMENTS[0]);
/// block names of the SLHA 1/2 conventions and of the common spectrum generators (a reader extended to understand one
/// more of them can only be exercised if the documents contain it)
static const char* const BLOCK_NAMES[] = {
   "MODSEL", "SMINPUTS", "MINPAR", "EXTPAR", "MASS", "NMIX", "UMIX", "VMIX", "STOPMIX", "SBOTMIX", "STAUMIX", "SMUMIX", "ALPHA", "HMIX", "GAUGE",
   "AU", "AD", "AE", "YU", "YD", "YE", "MSOFT", "SPINFO", "DCINFO", "VCKMIN", "VCKM", "IMVCKM", "UPMNSIN", "UPMNS", "IMUPMNS",
   "MSQ2", "MSU2", "MSD2", "MSL2", "MSE2", "TU", "TD", "TE", "USQMIX", "DSQMIX", "SELMIX", "SNUMIX", "QEXTPAR",
   "IMNMIX", "IMUMIX", "IMVMIX", "IMAU", "IMAD", "IMAE", "IMHMIX", "IMMSOFT", "IMEXTPAR", "IMMINPAR", "IMMASS",
   "GM2CalcConfig", "GM2CalcInput", "GM2CalcOutput", "GM2CalcTHDMDeltauInput", "GM2CalcTHDMDeltadInput", "GM2CalcTHDMDeltalInput",
   "GM2CalcTHDMPiuInput", "GM2CalcTHDMPidInput", "GM2CalcTHDMPilInput", "FlexibleSUSY", "FlexibleSUSYOutput", "FlexibleSUSYInput", "LOWEN", "EFFHIGGSCOUPLINGS",
   "SPhenoLowEnergy", "NMSSMRUN", "NMHMIX", "NMAMIX", "NMNMIX", "RVLAMLLE", "THDMINPUTS", "MINPARTHDM", "HIGGSBOUNDSINPUTHIGGSCOUPLINGSBOSONS"};
constexpr int N_BLOCK_NAMES = sizeof(BLOCK_NAMES) / sizeof(BLOCK_NAMES[0]);

/// alphabet of the raw command lines (enumeration CMDLINE: every sequence of up to three atoms)
static const char* const CMD_ATOMS[] = {
   "--help", "-h", "--version", "-v",
   "--slha-input-file=-", "--gm2calc-input-file=-", "--thdm-input-file=-",
   "--slha-input-file=<FILE>", "--gm2calc-input-file=<FILE>", "--thdm-input-file=<FILE>",
   "--slha-input-file=<MISSING>", "--thdm-input-file=<DIR>", "--gm2calc-input-file=", "--slha-input-file",
   "--slha-input-file=-x", "--SLHA-INPUT-FILE=-", "-slha-input-file=-", "--slha-input-file==-", "--slha-input=-", "--thdm-input-file=--help",
   "--slha-input-file=~/input.in", "--thdm-input-file=~", "--gm2calc-input-file=~nobody/x",
   "--help=1", "--helpx", "-hv", "--", "-", "", " ", "--thdm-input-file=-\n", "\xff\xfe", "=", "--=", "-v-", "--versio", "--h", "--gm2calc-input-file=<FILE>/", "--slha-input-file=<FILE> "};
constexpr int N_ATOMS = sizeof(CMD_ATOMS) / sizeof(CMD_ATOMS[0]);
static const double SCALES[] = {-1, 0.001, 0.1, 0.5, 0.9, 1.1, 2, 10, 1000, 1e6};
constexpr int N_SCALE = sizeof(SCALES) / sizeof(SCALES[0]);
constexpr int N_REPL_ENUM = N_REPL; ///< all kinds are enumerated exhaustively

inline void note_fault(Scenario& s, const std::string& k)
{
   if (std::find(s.fault_kinds.begin(), s.fault_kinds.end(), k) == s.fault_kinds.end()) s.fault_kinds.push_back(k);
}

inline size_t line_end(const std::string& d, size_t b) { size_t e = d.find('\n', b); return e == std::string::npos ? d.size() : e; }

/// interpret one plan line; positions are taken modulo the current size
inline void apply_op(Scenario& s, const Corpus& corpus, const std::vector<std::string>& t)
{
   if (t.empty() || t[0][0] == '#') return;
   const std::string& op = t[0];
   auto num = [&](size_t i) -> long long { return i < t.size() ? sim::iparse(t[i]) : 0; };
   auto damaged = [&](const char* kind) { s.base_intact = false; s.clean_doc = false; s.cfg_known_format = -1; note_fault(s, kind); };
   std::string& d = s.doc;
   if (op == "base") {
      if (t.size() >= 3 && t[1] == "corpus") {
         const int k = corpus.find(t[2]);
         if (k >= 0) { d = corpus.files[k].bytes; s.type = corpus.files[k].type; s.base_intact = true; s.clean_doc = true; }
         else { d.clear(); s.base_intact = false; s.clean_doc = false; }
      } else if (t.size() >= 2 && t[1] == "empty") { d.clear(); s.base_intact = false; s.clean_doc = false; note_fault(s, "empty_document"); }
      else if (t.size() >= 4 && t[1] == "random") {
         sim::Rng r((uint64_t)num(3));
         const size_t n = (size_t)(num(2) % 65537);
         d.resize(n);
         for (auto& c : d) c = (char)r.below(256);
         s.base_intact = false; s.clean_doc = false; note_fault(s, "random_bytes");
      } else if (t.size() >= 4 && t[1] == "randomtext") { // printable soup with SLHA-like words
         sim::Rng r((uint64_t)num(3));
         const size_t n = (size_t)(num(2) % 65537);
         static const char* const words[] = {"Block", "BLOCK", "block", "GM2CalcConfig", "GM2CalcInput", "SMINPUTS", "MASS", "MINPAR", "HMIX", "MSOFT", "AU", "AE", "Q=", "#", "\n", "\n", " ", "  ",
                                             "1", "2", "0", "3", "24", "1000022", "1e3", "-1", "nan", "1.5", "4", "5", "6", "33", "DECAY", "NMIX", "VCKMIN", "GM2CalcOutput", "SPINFO", "\t", "\r\n"};
         d.clear();
         while (d.size() < n) { d += words[r.below(sizeof words / sizeof words[0])]; d += r.chance(0.7) ? " " : ""; }
         s.base_intact = false; s.clean_doc = false; note_fault(s, "random_text");
      }
      s.cfg_known_format = -1;
   } else if (op == "trunc") {
      if (!d.empty() || true) { const size_t p = d.empty() ? 0 : (size_t)(((num(1) % (long long)(d.size() + 1)) + (long long)(d.size() + 1)) % (long long)(d.size() + 1)); if (p < d.size()) { d.resize(p); damaged("truncate"); } }
   } else if (op == "flip") {
      if (!d.empty()) { const size_t p = (size_t)(((num(1) % (long long)d.size()) + (long long)d.size()) % (long long)d.size()); d[p] = (char)(d[p] ^ (1 << (num(2) & 7))); damaged("bitflip"); }
   } else if (op == "zero") {
      if (!d.empty()) { const size_t p = (size_t)(((num(1) % (long long)d.size()) + (long long)d.size()) % (long long)d.size()); const size_t n = std::min<size_t>((size_t)(num(2) & 1023) + 1, d.size() - p); std::fill(d.begin() + p, d.begin() + p + n, '\0'); damaged("zero_range"); }
   } else if (op == "ins") {
      const size_t p = d.empty() ? 0 : (size_t)(((num(1) % (long long)(d.size() + 1)) + (long long)(d.size() + 1)) % (long long)(d.size() + 1));
      const std::string kind = t.size() > 2 ? t[2] : "rand";
      const size_t n = (size_t)(num(3) & 255) + 1;
      std::string ins(n, ' ');
      sim::Rng r((uint64_t)num(4));
      for (auto& c : ins) c = kind == "nul" ? '\0' : kind == "cr" ? '\r' : kind == "nl" ? '\n' : kind == "space" ? ' ' : kind == "hash" ? '#' : (char)r.below(256);
      if (d.size() + n <= 70000) { d.insert(p, ins); damaged("insert_bytes"); }
   } else if (op == "dropblock" || op == "emptyblock" || op == "lastentryonly") {
      // the K-th block of the document removed / reduced to its definition line / reduced to its definition and last
      // data line: which blocks and entries are present is what the setup code's "was it given?" logic depends on
      auto ls = line_starts(d);
      std::vector<size_t> defs; // indices into ls of block definition lines
      for (size_t i = 0; i < ls.size(); ++i) { auto tk = tokens_of(d, ls[i], line_end(d, ls[i])); if (tk.size() >= 2) { std::string f = d.substr(tk[0].first, tk[0].second - tk[0].first); for (auto& c : f) c = (char)std::tolower((unsigned char)c); if (f == "block" || f == "decay") defs.push_back(i); } }
      if (defs.empty()) return;
      const size_t k = (size_t)(((num(1) % (long long)defs.size()) + (long long)defs.size()) % (long long)defs.size());
      const size_t b = ls[defs[k]], e = (k + 1 < defs.size()) ? ls[defs[k + 1]] : d.size();
      const size_t hdr_end = std::min(e, line_end(d, b) + 1);
      if (op == "dropblock") { d.erase(b, e - b); damaged("block_removed"); }
      else if (op == "emptyblock") { if (e > hdr_end) { d.erase(hdr_end, e - hdr_end); damaged("block_emptied"); } }
      else { // keep header + last non-empty line
         size_t last = e; while (last > hdr_end && (d[last - 1] == '\n')) --last; size_t lb = d.rfind('\n', last ? last - 1 : 0); lb = (lb == std::string::npos || lb + 1 < hdr_end) ? hdr_end : lb + 1;
         if (lb > hdr_end) { d.erase(hdr_end, lb - hdr_end); damaged("block_reduced_to_last_entry"); }
      }
   } else if (op == "renameblock" || op == "cloneblock") {
      // the K-th block gets the J-th name of BLOCK_NAMES (rename), or a copy of it under that name is appended (clone)
      auto ls = line_starts(d);
      std::vector<size_t> defs;
      for (size_t i = 0; i < ls.size(); ++i) { auto tk = tokens_of(d, ls[i], line_end(d, ls[i])); if (tk.size() >= 2) { std::string f = d.substr(tk[0].first, tk[0].second - tk[0].first); for (auto& c : f) c = (char)std::tolower((unsigned char)c); if (f == "block") defs.push_back(i); } }
      if (defs.empty()) return;
      const size_t k = (size_t)(((num(1) % (long long)defs.size()) + (long long)defs.size()) % (long long)defs.size());
      const char* nm = BLOCK_NAMES[((num(2) % N_BLOCK_NAMES) + N_BLOCK_NAMES) % N_BLOCK_NAMES];
      const size_t b = ls[defs[k]], e = (k + 1 < defs.size()) ? ls[defs[k + 1]] : d.size();
      auto tk = tokens_of(d, b, line_end(d, b));
      if (op == "renameblock") { d.replace(tk[1].first, tk[1].second - tk[1].first, nm); damaged("block_renamed"); }
      else {
         std::string copy = d.substr(b, e - b); if (copy.empty() || copy.back() != '\n') copy += '\n';
         copy.replace(tk[1].first - b, tk[1].second - tk[1].first, nm);
         if (!d.empty() && d.back() != '\n') d += '\n';
         if (d.size() + copy.size() <= 70000) { d += copy; damaged("block_cloned_under_other_name"); }
      }
   } else if (op == "preout") {
      // preout V FRONT: the document already contains one of the blocks the program writes its results / diagnostics to
      static const char* const pre[] = {
         "Block GM2CalcOutput\n     0     1.00000000E-09   # a_mu from an earlier run\n     1     2.00000000E-10   # uncertainty\n",
         "Block GM2CalcOutput Q= 1.00000000E+03\n     0     1.0E-09\n     0     2.0E-09\n     0     3.0E-09\n",
         "Block GM2CalcOutput\n# only a comment\n",
         "Block SPINFO\n     1   SomeGenerator\n     2   1.0\n     3   an old warning\n     3   another old warning\n     4   an old error\n",
         "Block SPINFO\n",
         "Block LOWEN\n     6     1.0E-09\n     6     2.0E-09\n     7     0.5\n",
         "Block SPhenoLowEnergy\n    20     1.0E-13\n    21     1.0E-09\n    22     1.0E-07\n",
         "Block SPhenoLowEnergy Q= 91.0\n# nothing\nBlock LOWEN\nBlock GM2CalcOutput\n"};
      const char* b = pre[((num(1) % 8) + 8) % 8];
      if (num(2) % 2) d.insert(0, b); else { if (!d.empty() && d.back() != '\n') d += '\n'; d += b; }
      s.base_intact = false; note_fault(s, "output_block_already_present"); // (well-formed addition: the document stays clean)
   } else if (op == "manyscales") {
      // N blocks of the same name at N different scales appended (Q= selection code has to look at all of them)
      const size_t n = (size_t)std::min<long long>(std::max<long long>(1, num(1)), 3000);
      static const char* const names[] = {"HMIX", "MSOFT", "AE", "AU", "AD"};
      const char* nm = names[((num(2) % 5) + 5) % 5];
      if (!d.empty() && d.back() != '\n') d += '\n';
      for (size_t i = 0; i < n && d.size() < 69000; ++i) { char b[96]; std::snprintf(b, sizeof b, "Block %s Q= %.8e\n   1   %zu.5\n", nm, 100.0 + 3.0 * (double)i, i); d += b; }
      damaged("many_blocks_at_different_scales");
   } else if (op == "bulk") {
      // bulk LINE N: the chosen line repeated N times (thousands of entries with the same key / of identical block
      // definitions: what quadratic duplicate handling or per-line bookkeeping would choke on)
      auto ls = line_starts(d);
      if (d.empty()) return;
      const size_t a = (size_t)(((num(1) % (long long)ls.size()) + (long long)ls.size()) % (long long)ls.size());
      const size_t ab = ls[a], ae = (a + 1 < ls.size()) ? ls[a + 1] : d.size();
      std::string l = d.substr(ab, ae - ab); if (l.empty() || l.back() != '\n') l += '\n';
      size_t n = (size_t)std::min<long long>(std::max<long long>(1, num(2)), 20000);
      if (d.size() + n * l.size() > 70000) n = d.size() >= 70000 ? 0 : (70000 - d.size()) / l.size();
      if (n) { std::string rep; rep.reserve(n * l.size()); for (size_t i = 0; i < n; ++i) rep += l; d.insert(ab, rep); damaged("bulk_repeated_line"); }
   } else if (op == "crlf") {
      // the document as a DOS text file (every LF becomes CR LF); "crlf mac" = CR only
      std::string nd; nd.reserve(d.size() + d.size() / 16);
      const bool mac = t.size() > 1 && t[1] == "mac";
      for (char c : d) { if (c == '\n') { nd += '\r'; if (!mac) nd += '\n'; } else nd += c; }
      if (nd.size() <= 70000) { d = nd; damaged("crlf_line_endings"); }
   } else if (op == "pad") {
      // pad N: comment lines in front so that the document is exactly N bytes longer (moves the content across buffer boundaries)
      size_t n = (size_t)std::min<long long>(std::max<long long>(0, num(1)), 66000);
      if (d.size() + n > 70000) n = d.size() >= 70000 ? 0 : 70000 - d.size();
      std::string padding;
      while (padding.size() < n) { const size_t l = std::min<size_t>(n - padding.size(), 64); padding += (l == 1) ? std::string("\n") : "#" + std::string(l - 2, '-') + "\n"; }
      if (n) { d.insert(0, padding); s.base_intact = false; s.cfg_known_format = s.cfg_known_format; note_fault(s, "padding_comment_lines"); }
   } else if (op == "put") {
      // put POS KIND: overwrite ONE byte at an absolute offset (not modulo: skipped beyond the end) with cr|nl|nul|hash|space|B
      const long long p = num(1);
      const std::string kind = t.size() > 2 ? t[2] : "cr";
      if (p >= 0 && (size_t)p < d.size()) { d[(size_t)p] = kind == "nul" ? '\0' : kind == "cr" ? '\r' : kind == "nl" ? '\n' : kind == "space" ? ' ' : kind == "hash" ? '#' : 'B'; damaged("byte_at_offset"); }
   } else if (op == "dupline" || op == "dropline" || op == "swaplines") {
      auto ls = line_starts(d);
      if (d.empty()) return;
      const size_t a = (size_t)(((num(1) % (long long)ls.size()) + (long long)ls.size()) % (long long)ls.size());
      const size_t ab = ls[a], ae = (a + 1 < ls.size()) ? ls[a + 1] : d.size();
      if (op == "dupline") { std::string l = d.substr(ab, ae - ab); if (l.empty() || l.back() != '\n') l += '\n'; if (d.size() + l.size() <= 70000) { d.insert(ab, l); damaged("duplicate_line"); } }
      else if (op == "dropline") { d.erase(ab, ae - ab); damaged("drop_line"); }
      else {
         const size_t b = (size_t)(((num(2) % (long long)ls.size()) + (long long)ls.size()) % (long long)ls.size());
         if (a == b) return;
         const size_t lo = std::min(a, b), hi = std::max(a, b);
         const size_t lb = ls[lo], le = ls[lo + 1], hb = ls[hi], he = (hi + 1 < ls.size()) ? ls[hi + 1] : d.size();
         std::string L = d.substr(lb, le - lb), H = d.substr(hb, he - hb);
         if (H.empty() || H.back() != '\n') H += '\n';
         std::string nd = d.substr(0, lb) + H + d.substr(le, hb - le) + L + d.substr(he);
         d = nd; damaged("swap_lines");
      }
   } else if (op == "tok") {
      // tok LINE FIELD KIND : replace the FIELD-th token of the LINE-th line that has tokens
      auto ls = line_starts(d);
      std::vector<std::pair<size_t, std::vector<std::pair<size_t, size_t>>>> cand;
      for (size_t i = 0; i < ls.size(); ++i) { auto tk = tokens_of(d, ls[i], line_end(d, ls[i])); if (!tk.empty()) cand.push_back({i, tk}); }
      if (cand.empty()) return;
      auto& c = cand[(size_t)(((num(1) % (long long)cand.size()) + (long long)cand.size()) % (long long)cand.size())];
      auto& tk = c.second[(size_t)(((num(2) % (long long)c.second.size()) + (long long)c.second.size()) % (long long)c.second.size())];
      const int k = (int)(((num(3) % N_REPL) + N_REPL) % N_REPL);
      d.replace(tk.first, tk.second - tk.first, REPLACEMENTS[k]);
      damaged("replace_token");
   } else if (op == "scale") {
      // scale LINE FIELD K : the token, if it is a number, multiplied by a moderate factor -- the document stays well-formed
      // and plausible, but the physics point moves (tachyons, non-convergence, fallback solvers, MW > MZ, ...)
      auto ls = line_starts(d);
      std::vector<std::pair<size_t, std::vector<std::pair<size_t, size_t>>>> cand;
      for (size_t i = 0; i < ls.size(); ++i) { auto tk = tokens_of(d, ls[i], line_end(d, ls[i])); if (!tk.empty()) cand.push_back({i, tk}); }
      if (cand.empty()) return;
      auto& c = cand[(size_t)(((num(1) % (long long)cand.size()) + (long long)cand.size()) % (long long)cand.size())];
      auto& tk = c.second[(size_t)(((num(2) % (long long)c.second.size()) + (long long)c.second.size()) % (long long)c.second.size())];
      const int k = (int)(((num(3) % N_SCALE) + N_SCALE) % N_SCALE);
      const std::string old = d.substr(tk.first, tk.second - tk.first);
      char* endp = nullptr; const double v = std::strtod(old.c_str(), &endp);
      if (old.empty() || *endp != 0 || !std::isfinite(v)) return; // not a number: nothing happens
      char buf[64]; std::snprintf(buf, sizeof buf, "%.17g", v * SCALES[k]);
      d.replace(tk.first, tk.second - tk.first, buf);
      s.base_intact = false; s.cfg_known_format = -1; note_fault(s, "scale_value"); // (the document stays clean: only a number changed)
   } else if (op == "del") {
      // lost bytes
      if (!d.empty()) { const size_t p = (size_t)(((num(1) % (long long)d.size()) + (long long)d.size()) % (long long)d.size()); const size_t n = std::min<size_t>((size_t)(num(2) & 15) + 1, d.size() - p); d.erase(p, n); damaged("delete_bytes"); }
   } else if (op == "tokglue") {
      // tokglue LINE FIELD KIND : like tok, and the white space in front of the token is lost ("Q= 1.0E+03" -> "Q=<replacement>")
      auto ls = line_starts(d);
      std::vector<std::pair<size_t, std::vector<std::pair<size_t, size_t>>>> cand;
      for (size_t i = 0; i < ls.size(); ++i) { auto tk = tokens_of(d, ls[i], line_end(d, ls[i])); if (tk.size() >= 2) cand.push_back({i, tk}); }
      if (cand.empty()) return;
      auto& c = cand[(size_t)(((num(1) % (long long)cand.size()) + (long long)cand.size()) % (long long)cand.size())];
      const size_t f = 1 + (size_t)(((num(2) % (long long)(c.second.size() - 1)) + (long long)(c.second.size() - 1)) % (long long)(c.second.size() - 1));
      const int k = (int)(((num(3) % N_REPL) + N_REPL) % N_REPL);
      const size_t from = c.second[f - 1].second, to = c.second[f].second;
      d.replace(from, to - from, REPLACEMENTS[k]);
      damaged("replace_token_glued");
   } else if (op == "idx") {
      // idx LINE WHICH KIND : overwrite the first (WHICH=0) or second (WHICH=1) field of a data line with a special index value
      static const char* const vals[] = {"0", "-1", "4", "7", "2147483647", "2147483648", "-2147483649", "99999999999", "1.0", "1.5", "1e0", "+1", "9223372036854775808", "00", "-0"};
      auto ls = line_starts(d);
      std::vector<std::vector<std::pair<size_t, size_t>>> cand;
      for (size_t i = 0; i < ls.size(); ++i) { auto tk = tokens_of(d, ls[i], line_end(d, ls[i])); if (tk.size() >= 2 && d[ls[i]] != 'B' && d[ls[i]] != 'b') cand.push_back(tk); }
      if (cand.empty()) return;
      auto& c = cand[(size_t)(((num(1) % (long long)cand.size()) + (long long)cand.size()) % (long long)cand.size())];
      auto& tk = c[(size_t)(num(2) & 1) < c.size() ? (size_t)(num(2) & 1) : 0];
      d.replace(tk.first, tk.second - tk.first, vals[(size_t)(((num(3) % 15) + 15) % 15)]);
      damaged("special_index");
   } else if (op == "blowline") {
      // blowline LINE N : repeat the last token of a line N times (very long line, very many fields)
      auto ls = line_starts(d);
      std::vector<std::pair<size_t, size_t>> last;
      for (size_t i = 0; i < ls.size(); ++i) { auto tk = tokens_of(d, ls[i], line_end(d, ls[i])); if (!tk.empty()) last.push_back(tk.back()); }
      if (last.empty()) return;
      auto tk = last[(size_t)(((num(1) % (long long)last.size()) + (long long)last.size()) % (long long)last.size())];
      const std::string tok = d.substr(tk.first, tk.second - tk.first);
      size_t n = (size_t)(num(2) % 6000);
      std::string add;
      for (size_t i = 0; i < n && add.size() + d.size() < 69000; ++i) { add += ' '; add += tok; }
      d.insert(tk.second, add);
      damaged("very_long_line");
   } else if (op == "hdr") {
      // hdr N KIND : damage the N-th block header
      auto ls = line_starts(d);
      std::vector<size_t> heads;
      for (size_t b : ls) { size_t i = b; while (i < d.size() && (d[i] == ' ' || d[i] == '\t')) ++i; if (i + 5 <= d.size() && (d[i] == 'B' || d[i] == 'b') && strncasecmp(d.c_str() + i, "block", 5) == 0) heads.push_back(b); }
      if (heads.empty()) return;
      const size_t b = heads[(size_t)(((num(1) % (long long)heads.size()) + (long long)heads.size()) % (long long)heads.size())];
      const size_t e = line_end(d, b);
      auto tk = tokens_of(d, b, e);
      std::string nl;
      switch ((int)(((num(2) % 14) + 14) % 14)) {
      case 8: nl = "Block " + (tk.size() > 1 ? d.substr(tk[1].first, tk[1].second - tk[1].first) : std::string("X")) + " Q=1.0E+03"; break;   // value glued to Q=
      case 9: nl = "Block " + (tk.size() > 1 ? d.substr(tk[1].first, tk[1].second - tk[1].first) : std::string("X")) + " Q=abc"; break;
      case 10: nl = "Block " + (tk.size() > 1 ? d.substr(tk[1].first, tk[1].second - tk[1].first) : std::string("X")) + " Q=1e999"; break;
      case 11: nl = "Block " + (tk.size() > 1 ? d.substr(tk[1].first, tk[1].second - tk[1].first) : std::string("X")) + " Q=-"; break;
      case 12: nl = "Block " + (tk.size() > 1 ? d.substr(tk[1].first, tk[1].second - tk[1].first) : std::string("X")) + " q= 1.0E+03"; break;
      case 13: nl = "Block " + (tk.size() > 1 ? d.substr(tk[1].first, tk[1].second - tk[1].first) : std::string("X")) + " Q = 1.0E+03"; break;
      case 0: nl = "Block"; break;                                        // name dropped
      case 1: nl = d.substr(b, e - b) + " Q="; break;                     // Q= without value
      case 2: nl = d.substr(b, e - b) + " Q= nan"; break;
      case 3: nl = d.substr(b, e - b); for (auto& ch : nl) ch = (char)std::tolower((unsigned char)ch); break;
      case 4: nl = d.substr(b, e - b); for (auto& ch : nl) ch = (char)std::toupper((unsigned char)ch); break;
      case 5: nl = d.substr(b, e - b) + " Q= 1e400 extra tokens # c"; break;
      case 6: nl = "Block " + (tk.size() > 1 ? d.substr(tk[1].first, tk[1].second - tk[1].first) : std::string("X")) + " Q=-1.0E+03"; break;
      default: nl = "Blok " + (tk.size() > 1 ? d.substr(tk[1].first, tk[1].second - tk[1].first) : std::string("X")); break;
      }
      d.replace(b, e - b, nl);
      damaged("damage_block_header");
   } else if (op == "cfg") {
      // cfg FMT LOOP TANB FORCE VERBOSE UNC RUNNING : append a complete configuration block
      if (!d.empty() && d.back() != '\n') d += '\n';
      d += "Block GM2CalcConfig\n";
      for (int k = 0; k < 7; ++k) d += "   " + std::to_string(k) + "   " + std::to_string(num(1 + k)) + "\n";
      s.base_intact = false; note_fault(s, "set_config");
      const bool valid = num(1) >= 0 && num(1) <= 4 && num(2) >= 0 && num(2) <= 2 && num(3) >= 0 && num(3) <= 1 && num(4) >= 0 && num(4) <= 1 &&
                         num(5) >= 0 && num(5) <= 1 && num(6) >= 0 && num(6) <= 1 && num(7) >= 0 && num(7) <= 1;
      s.cfg_known_format = valid ? (int)num(1) : -1;
      s.cfg_force = valid && num(4) == 1;
   } else if (op == "cfgkey") {
      if (!d.empty() && d.back() != '\n') d += '\n';
      d += "Block GM2CalcConfig\n   " + (t.size() > 1 ? t[1] : std::string("0")) + "   " + (t.size() > 2 ? t[2] : std::string("")) + "\n";
      s.base_intact = false; s.cfg_known_format = -1; note_fault(s, "config_key");
   } else if (op == "foreign") {
      if (!d.empty() && d.back() != '\n') d += '\n';
      d += "Block FOREIGN Q= 1.0E+03 # unknown block\n   1   2   3.0   # c\n   abc def\nDECAY 1000022 1.0E-3\n   0.5 2 11 -11\n";
      s.base_intact = false; note_fault(s, "foreign_block");
   } else if (op == "type") {
      if (t.size() > 1 && (t[1] == "slha" || t[1] == "gm2calc" || t[1] == "thdm")) { if (s.type != t[1]) note_fault(s, "mismatched_input_type"); s.type = t[1]; }
   } else if (op == "src") {
      const std::string k = t.size() > 1 ? t[1] : "stdin";
      s.path_is_fifo = false;
      if (k == "stdin") s.src = SRC_STDIN; else if (k == "path") s.src = SRC_PATH;
      else if (k == "fifo") { s.src = SRC_PATH; s.path_is_fifo = true; note_fault(s, "named_input_is_fifo_delivered_in_pieces"); }
      else if (k == "missing") { s.src = SRC_MISSING; note_fault(s, "missing_file"); }
      else if (k == "dir") { s.src = SRC_DIR; note_fault(s, "source_is_directory"); }
      else if (k == "emptyname") { s.src = SRC_EMPTYNAME; note_fault(s, "empty_source_name"); }
      else if (k == "none") { s.src = SRC_NONE; note_fault(s, "no_input_option"); }
      else if (k == "tilde") { s.src = SRC_TILDE; s.tilde_kind = (int)(((num(2) % 4) + 4) % 4); note_fault(s, "tilde_path"); }
      else if (k == "missinglong") {
         // a name that cannot be opened, of a chosen length: one long component (ENAMETOOLONG beyond 255) or nested short ones (ENOENT)
         const size_t len = (size_t)std::min<long long>(std::max<long long>(1, num(2)), 65536);
         s.longname.clear();
         if (num(3) % 2 == 0) s.longname.assign(len, 'n');
         else { while (s.longname.size() + 9 <= len) s.longname += "no-such/"; s.longname.append(len - s.longname.size(), 'f'); }
         s.src = SRC_MISSING_LONG; note_fault(s, "missing_file_long_name");
      }
   } else if (op == "arg" || op == "prearg") {
      std::string a = t.size() > 1 ? t[1] : "";
      if (a == "<empty>") a = "";
      (op == "arg" ? s.post_args : s.pre_args).push_back(a);
      note_fault(s, "extra_argument");
   } else if (op == "stdinkind") {
      s.stdin_is_file = t.size() > 1 && t[1] == "file";
      note_fault(s, s.stdin_is_file ? "stdin_is_regular_file" : "stdin_is_pipe");
   } else if (op == "knob") {
      // knob maxiter N: tuning knob of the program under test set by the simulator through the GM2CALC_VERIF hook in
      // src/gm2calc.cpp.  Only values below the shipped one (1000): the program may only do less work than shipped.
      if (t.size() > 2 && t[1] == "maxiter") { s.max_iter_knob = (unsigned)std::min<long long>(std::max<long long>(0, num(2)), 999); if (s.max_iter_knob) note_fault(s, "knob_iteration_budget_lowered"); }
   } else if (op == "env") {
      s.env_mode = (int)(((num(1) % N_ENV_MODES) + N_ENV_MODES) % N_ENV_MODES);
      if (s.env_mode) note_fault(s, "process_environment_" + std::string(s.env_mode == 1 ? "empty" : s.env_mode == 2 ? "empty_strings" : s.env_mode == 3 ? "long_values" : "odd_values"));
   } else if (op == "rawarg") {
      // rawarg K: one atom of the command-line alphabet, appended as it is; <FILE>, <MISSING>, <DIR> are replaced by
      // paths of the simulated file system when the program is started
      const int k = (int)(((num(1) % N_ATOMS) + N_ATOMS) % N_ATOMS);
      s.pre_args.push_back(CMD_ATOMS[k]);
      if (std::string(CMD_ATOMS[k]).find("<FILE>") != std::string::npos) s.materialise_file = true;
      note_fault(s, "raw_command_line");
   } else if (op == "longarg") {
      // longarg <pre|post> <kind> <length>: a very long command-line argument
      const size_t len = (size_t)std::min<long long>(std::max<long long>(1, num(3)), 65536);
      std::string a;
      switch (num(2) % 5) {
      case 0: a = "--" + std::string(len, 'x'); break;
      case 1: a = "--slha-input-file=" + std::string(len, 'y'); break;
      case 2: a = std::string(len, 'z'); break;
      case 3: a = "--help" + std::string(len, 'h'); break;
      default: a = "--thdm-input-file=/" + std::string(len, 'q'); break;
      }
      ((t.size() > 1 && t[1] == "pre") ? s.pre_args : s.post_args).push_back(a);
      note_fault(s, "long_argument");
   } else if (op == "chunks") { s.chunk_seed = (uint64_t)num(1); s.chunk_max = (unsigned)std::max<long long>(1, num(2) % 4097); note_fault(s, "chunked_delivery"); }
   else if (op == "readerr") { s.readerr = (long)std::max<long long>(0, num(1)); }
   else if (op == "eintr") { s.eintr = (long)std::max<long long>(0, num(1)); }
   else if (op == "sinkfail") { const long k = (long)std::max<long long>(0, num(2)); if (t.size() > 1 && t[1] == "err") s.sinkfail_err = k; else s.sinkfail_out = k; }
}

inline Scenario build_scenario(const Corpus& corpus, const std::vector<std::string>& plan)
{
   Scenario s;
   for (auto& l : plan) apply_op(s, corpus, sim::split(l));
   if (s.readerr >= 0) s.readerr = s.doc.empty() ? 0 : s.readerr % (long)(s.doc.size() + 1);
   return s;
}

// ------------------------------------------------------------- generators
inline std::string cfg_line(sim::Rng& r, bool allow_invalid)
{
   long v[7] = {(long)r.below(5), (long)r.below(3), (long)r.below(2), (long)r.below(2), (long)(r.chance(0.15) ? 1 : 0), (long)r.below(2), (long)r.below(2)};
   if (allow_invalid && r.chance(0.15)) v[r.below(7)] = r.range(-2, 9);
   std::string l = "cfg";
   for (long x : v) l += " " + std::to_string(x);
   return l;
}

inline std::vector<std::string> gen_plan(const Corpus& corpus, uint64_t seed, std::string* mode_out, bool light = false)
{
   sim::Rng r(seed);
   static const char* const modes[] = {"environment", "bytes", "structure", "everything", "random_bytes", "config", "crashpoint", "random_text"};
   int mode = (int)r.below(8);
   // light plans: intact shipped files under environment faults and configuration changes only, so that
   // most of them get past parsing into the calculations (used for the real-process and valgrind samples)
   if (light) { static const int lm[] = {0, 5, 0, 5, 6}; mode = lm[r.below(5)]; }
   if (mode_out) *mode_out = modes[mode];
   std::vector<std::string> p;
   const CorpusFile& f = corpus.files[r.below(corpus.files.size())];
   if (mode == 4) p.push_back("base random " + std::to_string(r.chance(0.5) ? r.below(256) : r.below(65537)) + " " + std::to_string(r.next() >> 1));
   else if (mode == 7) p.push_back("base randomtext " + std::to_string(r.chance(0.5) ? r.below(512) : r.below(20000)) + " " + std::to_string(r.next() >> 1));
   else if (!light && r.chance(0.03)) p.push_back("base empty");
   else p.push_back("base corpus " + f.rel);
   if (mode == 4 || mode == 7) { static const char* const ty[] = {"slha", "gm2calc", "thdm"}; p.push_back(std::string("type ") + ty[r.below(3)]); }
   const size_t nops = 1 + r.below(12);
   auto byte_op = [&]() -> std::string {
      switch (r.below(9)) {
      case 7: return r.chance(0.8) ? "crlf" : "crlf mac";
      case 8: { static const long b[] = {256, 512, 1024, 2048, 4096, 8192, 16384, 32768, 65536}; static const char* const k[] = {"cr", "nl", "nul", "hash", "space", "B"};
                return "put " + std::to_string(b[r.below(9)] - 2 + (long)r.below(4)) + " " + k[r.below(6)]; }
      case 6: return "del " + std::to_string(r.next() >> 1) + " " + std::to_string(r.below(16));
      case 0: return "trunc " + std::to_string(r.next() >> 1);
      case 1: return "flip " + std::to_string(r.next() >> 1) + " " + std::to_string(r.below(8));
      case 2: return "zero " + std::to_string(r.next() >> 1) + " " + std::to_string(r.below(64));
      case 3: { static const char* const k[] = {"rand", "nul", "cr", "nl", "space", "hash"}; return std::string("ins ") + std::to_string(r.next() >> 1) + " " + k[r.below(6)] + " " + std::to_string(r.below(40)) + " " + std::to_string(r.next() >> 1); }
      case 4: return "flip " + std::to_string(r.next() >> 1) + " " + std::to_string(r.below(8));
      default: return "trunc " + std::to_string(r.next() >> 1);
      }
   };
   auto struct_op = [&]() -> std::string {
      switch (r.below(23)) {
      case 22: return "preout " + std::to_string(r.below(8)) + " " + std::to_string(r.below(2));
      case 20: return "renameblock " + std::to_string(r.below(30)) + " " + std::to_string(r.below(N_BLOCK_NAMES));
      case 21: return "cloneblock " + std::to_string(r.below(30)) + " " + std::to_string(r.below(N_BLOCK_NAMES));
      case 16: return "dropblock " + std::to_string(r.below(30));
      case 17: return "emptyblock " + std::to_string(r.below(30));
      case 18: return "lastentryonly " + std::to_string(r.below(30));
      case 19: return "manyscales " + std::to_string(r.chance(0.5) ? 1 + r.below(20) : 500 + r.below(2500)) + " " + std::to_string(r.below(5));
      case 15: return "bulk " + std::to_string(r.below(400)) + " " + std::to_string(r.chance(0.5) ? 1 + r.below(200) : 1000 + r.below(8000));
      case 12: case 13: case 14: return "scale " + std::to_string(r.below(400)) + " " + std::to_string(1 + r.below(3)) + " " + std::to_string(r.below(N_SCALE));
      case 10: return "idx " + std::to_string(r.below(400)) + " " + std::to_string(r.below(2)) + " " + std::to_string(r.below(15));
      case 11: return "blowline " + std::to_string(r.below(400)) + " " + std::to_string(r.chance(0.5) ? r.below(40) : r.below(6000));
      case 9: return "tokglue " + std::to_string(r.below(400)) + " " + std::to_string(r.below(4)) + " " + std::to_string(r.below(N_REPL));
      case 0: case 1: case 2: return "tok " + std::to_string(r.below(400)) + " " + std::to_string(r.below(4)) + " " + std::to_string(r.below(N_REPL));
      case 3: return "hdr " + std::to_string(r.below(30)) + " " + std::to_string(r.below(14));
      case 4: return "dupline " + std::to_string(r.below(400));
      case 5: return "dropline " + std::to_string(r.below(400));
      case 6: return "swaplines " + std::to_string(r.below(400)) + " " + std::to_string(r.below(400));
      case 7: return "foreign";
      default: { static const char* const vals[] = {"nan", "1e300", "-1", "7", "2.5", "", "x", "4294967297", "1", "0"}; return "cfgkey " + std::to_string(r.chance(0.8) ? r.below(7) : r.range(-3, 12)) + " " + vals[r.below(10)]; }
      }
   };
   auto env_op = [&]() -> std::string {
      switch (r.below(15)) {
      case 13: if (r.chance(0.5)) { static const int k[] = {1, 1, 2, 3, 5, 10, 50, 200}; return "knob maxiter " + std::to_string(k[r.below(8)]); }
               return "env " + std::to_string(1 + r.below(N_ENV_MODES - 1));
      case 14: return "src tilde " + std::to_string(r.below(4));
      case 12: return "rawarg " + std::to_string(r.below(N_ATOMS));
      case 10: { static const long lens[] = {64, 200, 219, 220, 255, 256, 257, 300, 511, 512, 1023, 1024, 4095, 4096, 4097, 20000, 65536};
                 return "src missinglong " + std::to_string(r.chance(0.6) ? lens[r.below(17)] : (long)(1 + r.below(1200))) + " " + std::to_string(r.below(2)); }
      case 11: { static const long lens[] = {64, 200, 255, 256, 300, 512, 1024, 4096, 20000, 65536};
                 return std::string("longarg ") + (r.chance(0.5) ? "pre " : "post ") + std::to_string(r.below(5)) + " " + std::to_string(r.chance(0.6) ? lens[r.below(10)] : (long)(1 + r.below(1200))); }
      case 0: return r.chance(0.25) ? "src fifo" : "src path";
      case 1: return r.chance(0.5) ? "src stdin" : (r.chance(0.5) ? "stdinkind file" : "stdinkind pipe");
      case 2: { static const char* const k[] = {"missing", "dir", "emptyname", "none"}; return std::string("src ") + k[r.below(4)]; }
      case 3: { static const char* const ty[] = {"slha", "gm2calc", "thdm"}; return std::string("type ") + ty[r.below(3)]; }
      case 4: { static const char* const a[] = {"--help", "-h", "--version", "-v", "--foo", "<empty>", "--slha-input-file=", "--thdm-input-file=-", "-", "--gm2calc-input-file=/nonexistent", "--slha-input-file", "\xff\xfe"};
                return std::string(r.chance(0.5) ? "arg " : "prearg ") + a[r.below(12)]; }
      case 5: case 6: return "chunks " + std::to_string(r.next() >> 1) + " " + std::to_string(r.chance(0.5) ? 1 + r.below(8) : 1 + r.below(4096));
      case 7: return "readerr " + std::to_string(r.next() >> 1);
      case 8: return std::string("sinkfail ") + (r.chance(0.5) ? "out " : "err ") + std::to_string(r.chance(0.5) ? r.below(16) : r.below(4000));
      default: return "eintr " + std::to_string(r.below(6));
      }
   };
   for (size_t i = 0; i < nops; ++i) {
      switch (mode) {
      case 0: p.push_back(env_op()); break;
      case 1: case 4: p.push_back(r.chance(0.85) ? byte_op() : env_op()); break;
      case 2: case 7: p.push_back(r.chance(0.85) ? struct_op() : env_op()); break;
      case 5: p.push_back(r.chance(0.5) ? cfg_line(r, true) : (r.chance(0.5) ? struct_op() : env_op())); break;
      case 6: p.push_back(r.chance(0.6) ? "trunc " + std::to_string(r.next() >> 1) : (r.chance(0.5) ? "readerr " + std::to_string(r.next() >> 1) : env_op())); break;
      default: { const auto k = r.below(3); p.push_back(k == 0 ? byte_op() : k == 1 ? struct_op() : env_op()); } break;
      }
   }
   // half of the runs end with a complete configuration block so that all output writers are reached
   if (r.chance(0.5)) p.push_back(cfg_line(r, false));
   return p;
}

} // namespace clisim

#endif
