// clisim: command-line world simulator (decides C14).  DESIGN.md section 4.3.
// Layer L1: the program's real main() (renamed gm2calc_main by prelude.h) runs
// in-process against simulated argv, stdin/stdout/stderr stream buffers, a
// materialised file system entry and a logical step clock.
#include "scenario.hpp"

#include <cxxabi.h>
#include <strings.h>
#include <iostream>
#include <new>
#include <sstream>
#include <streambuf>
#include <sys/stat.h>
#include <sys/wait.h>
#include <typeinfo>

int gm2calc_main(int argc, const char* argv[]);

namespace clisim {
struct ExitException { int code; };
[[noreturn]] void sim_exit(int code) { throw ExitException{code}; }
}

// ------------------------------------------------------------ step clock
static volatile uint64_t g_steps = 0;
static uint64_t g_budget = ~0ULL;
extern "C" {
__attribute__((no_instrument_function)) void __cyg_profile_func_enter(void*, void*)
{
   if (++g_steps > g_budget) _exit(79); // logical-time budget exceeded: reported by the parent as a hang
}
__attribute__((no_instrument_function)) void __cyg_profile_func_exit(void*, void*) {}
__attribute__((used, visibility("default"))) const char* __asan_default_options() { return "exitcode=77:detect_leaks=0:abort_on_error=0:allocator_may_return_null=1"; }
__attribute__((used, visibility("default"))) const char* __ubsan_default_options() { return "exitcode=78:print_stacktrace=0:halt_on_error=1"; }
}

// --------------------------------------------------- allocation balance
static long g_live = 0;
#ifndef CLISIM_NO_ALLOC_COUNT // (the valgrind worker keeps valgrind's own replacement of operator new/delete)
void* operator new(std::size_t n) { void* p = std::malloc(n ? n : 1); if (!p) throw std::bad_alloc(); ++g_live; return p; }
void* operator new[](std::size_t n) { void* p = std::malloc(n ? n : 1); if (!p) throw std::bad_alloc(); ++g_live; return p; }
void operator delete(void* p) noexcept { if (p) { --g_live; std::free(p); } }
void operator delete[](void* p) noexcept { if (p) { --g_live; std::free(p); } }
void operator delete(void* p, std::size_t) noexcept { if (p) { --g_live; std::free(p); } }
void operator delete[](void* p, std::size_t) noexcept { if (p) { --g_live; std::free(p); } }
#endif

using namespace clisim;

namespace {

const uint64_t ENGINE_ID = 14;
Corpus g_corpus;
std::string g_fsdir;
bool g_hash_all = false;
sim::Progress g_prog;

// ------------------------------------------------------- simulated streams
/// stdin: delivers the document in chunks chosen by the delivery schedule; may fail at byte k
struct InBuf : std::streambuf {
   const std::string* doc = nullptr; size_t pos = 0; sim::Rng rng; unsigned maxchunk = 0; long failat = -1; bool failed = false;
   uint64_t underflows = 0;
   int_type underflow() override
   {
      ++underflows;
      if (failat >= 0 && pos >= (size_t)failat) { failed = true; throw std::ios_base::failure("simulated read error"); }
      if (pos >= doc->size()) return traits_type::eof();
      size_t n = maxchunk ? 1 + rng.below(maxchunk) : doc->size() - pos;
      n = std::min(n, doc->size() - pos);
      if (failat >= 0) n = std::min(n, (size_t)failat - pos);
      char* b = const_cast<char*>(doc->data()) + pos;
      setg(b, b, b + n);
      pos += n;
      return traits_type::to_int_type(*b);
   }
   // what kind of object stdin is: a regular file can be repositioned and knows how much is left, a pipe cannot
   bool seekable = false;
   pos_type seekoff(off_type off, std::ios_base::seekdir dir, std::ios_base::openmode which) override
   {
      if (!seekable || !(which & std::ios_base::in)) return pos_type(off_type(-1));
      const off_type cur = (off_type)(pos - (size_t)(egptr() - gptr()));
      off_type target = dir == std::ios_base::beg ? off : dir == std::ios_base::cur ? cur + off : (off_type)doc->size() + off;
      if (target < 0 || target > (off_type)doc->size()) return pos_type(off_type(-1));
      pos = (size_t)target; setg(nullptr, nullptr, nullptr);
      return pos_type(target);
   }
   pos_type seekpos(pos_type p, std::ios_base::openmode which) override { return seekoff(off_type(p), std::ios_base::beg, which); }
   std::streamsize showmanyc() override { return seekable ? (std::streamsize)(doc->size() - pos) : 0; }
};
/// stdout/stderr: collects bytes; a sink fault makes it accept only the first k bytes
struct OutBuf : std::streambuf {
   std::string data; long limit = -1; bool failed = false;
   int_type overflow(int_type c) override
   {
      if (c == traits_type::eof()) return traits_type::not_eof(c);
      if (limit >= 0 && (long)data.size() >= limit) { failed = true; return traits_type::eof(); }
      data.push_back((char)c);
      return c;
   }
   std::streamsize xsputn(const char* s, std::streamsize n) override
   {
      std::streamsize k = n;
      if (limit >= 0) k = std::max<std::streamsize>(0, std::min<std::streamsize>(n, limit - (long)data.size()));
      data.append(s, (size_t)k);
      if (k < n) failed = true;
      return k;
   }
};

struct Outcome {
   int status = 0; bool exited_via_exit = false; std::string uncaught; std::string out, err; uint64_t steps = 0, cpu_ms = 0;
   bool in_failed = false, out_failed = false, err_failed = false; uint64_t underflows = 0; size_t consumed = 0;
};

std::string demangle(const char* n)
{
   int st = 0; char* d = abi::__cxa_demangle(n, nullptr, nullptr, &st);
   std::string r = (st == 0 && d) ? d : n; std::free(d); return r;
}

// ---- tuning knob of the program (GM2CALC_VERIF hook in src/gm2calc.cpp)
unsigned g_max_iter_knob = 0; uint64_t g_knob_queries = 0;
} // namespace
extern "C" unsigned gm2calc_verif_max_iterations(unsigned shipped) { ++g_knob_queries; return (g_max_iter_knob && g_max_iter_knob < shipped) ? g_max_iter_knob : shipped; }
namespace {
// ---- the process environment as the program sees it (-Wl,--wrap=getenv,--wrap=secure_getenv)
int g_env_mode = 0; bool g_env_active = false;
std::map<std::string, uint64_t> g_env_queries; ///< names the program asked for (reported as probes)
} // namespace
extern "C" char* __real_getenv(const char*);
extern "C" char* __wrap_getenv(const char* name)
{
   if (!g_env_active || !name) return __real_getenv(name);
   g_env_queries[name]++;
   return const_cast<char*>(clisim::simulated_env(g_env_mode, name));
}
extern "C" char* __wrap_secure_getenv(const char* name) { return __wrap_getenv(name); }
namespace {

/// run the program once against the scenario (L1)
void run_l1(const Scenario& s, Outcome& o)
{
   // file system
   std::string source;
   const std::string path = g_fsdir + "/input.in";
   switch (s.src) {
   case SRC_STDIN: source = "-"; break;
   case SRC_PATH: source = path; break;
   case SRC_MISSING: source = g_fsdir + "/does-not-exist.in"; break;
   case SRC_DIR: source = g_fsdir; break;
   case SRC_EMPTYNAME: source = ""; break;
   case SRC_NONE: break;
   case SRC_MISSING_LONG: source = g_fsdir + "/" + s.longname; break;
   case SRC_TILDE: { static const char* const sp[] = {"~/input.in", "~", "~nobody/x", "~/"}; source = sp[s.tilde_kind & 3]; } break;
   }
   const bool have_file = s.src == SRC_PATH || s.materialise_file;
   if (have_file) { FILE* f = std::fopen(path.c_str(), "wb"); if (f) { std::fwrite(s.doc.data(), 1, s.doc.size(), f); std::fclose(f); } }
   auto resolve = [&](std::string a) {
      for (const auto& kv : {std::make_pair(std::string("<FILE>"), path), std::make_pair(std::string("<MISSING>"), g_fsdir + "/does-not-exist.in"), std::make_pair(std::string("<DIR>"), g_fsdir)}) {
         size_t p; while ((p = a.find(kv.first)) != std::string::npos) a.replace(p, kv.first.size(), kv.second);
      }
      return a; };
   std::vector<std::string> args = {"gm2calc.x"};
   for (auto& a : s.pre_args) args.push_back(resolve(a));
   if (s.src != SRC_NONE) args.push_back("--" + s.type + "-input-file=" + source);
   for (auto& a : s.post_args) args.push_back(resolve(a));
   std::vector<const char*> argv;
   for (auto& a : args) argv.push_back(a.c_str());
   argv.push_back(nullptr);

   InBuf in; in.doc = &s.doc; in.rng.reseed(s.chunk_seed); in.maxchunk = s.chunk_max; in.failat = (s.src == SRC_STDIN) ? s.readerr : -1; in.seekable = s.stdin_is_file;
   OutBuf out, err; out.limit = s.sinkfail_out; err.limit = s.sinkfail_err;
   static std::ios pristine(nullptr);
   std::streambuf* oin = std::cin.rdbuf(&in); std::streambuf* oout = std::cout.rdbuf(&out); std::streambuf* oerr = std::cerr.rdbuf(&err);
   std::cin.clear(); std::cout.clear(); std::cerr.clear();
   std::cin.copyfmt(pristine); std::cout.copyfmt(pristine); std::cerr.copyfmt(pristine);
   std::cerr.setf(std::ios::unitbuf);
   std::cin.exceptions(std::ios::goodbit); std::cout.exceptions(std::ios::goodbit); std::cerr.exceptions(std::ios::goodbit);
   g_steps = 0;
   sim::Watchdog::arm();
   g_env_mode = s.env_mode; g_env_active = true; g_max_iter_knob = s.max_iter_knob;
   try {
      o.status = gm2calc_main((int)args.size(), argv.data());
   } catch (const ExitException& e) {
      o.status = e.code; o.exited_via_exit = true;
   } catch (...) {
      const std::type_info* ti = abi::__cxa_current_exception_type();
      o.uncaught = ti ? demangle(ti->name()) : "unknown";
   }
   o.cpu_ms = sim::Watchdog::disarm();
   g_env_active = false;
   o.steps = g_steps;
   std::cout.flush();
   std::cin.rdbuf(oin); std::cout.rdbuf(oout); std::cerr.rdbuf(oerr);
   std::cin.clear(); std::cout.clear(); std::cerr.clear();
   o.out.swap(out.data); o.err.swap(err.data);
   o.in_failed = in.failed; o.out_failed = out.failed; o.err_failed = err.failed; o.underflows = in.underflows; o.consumed = in.pos;
   if (have_file) std::remove(path.c_str());
}

// ------------------------------------------------------------------ oracle
std::string norm_tokens(const std::string& l)
{
   std::string o;
   for (auto& t : sim::split(l)) { if (!o.empty()) o += ' '; o += t; }
   return o;
}

/// case-insensitive comparison of whole strings (a field may contain NUL bytes: no C string functions)
bool ieq(const std::string& a, const char* b)
{
   const size_t n = std::strlen(b);
   if (a.size() != n) return false;
   for (size_t i = 0; i < n; ++i) if (std::tolower((unsigned char)a[i]) != std::tolower((unsigned char)b[i])) return false;
   return true;
}

bool has_spinfo_34(const std::string& out)
{
   bool in_spinfo = false;
   size_t b = 0;
   while (b < out.size()) {
      size_t e = out.find('\n', b); if (e == std::string::npos) e = out.size();
      const auto t = sim::split(out.substr(b, e - b));
      if (!t.empty()) {
         // SLHAea treats BLOCK and DECAY lines alike as block definitions (name = second token)
         // (SLHAea::Line::is_block_def: at least two fields, the second not a comment)
         if (t.size() >= 2 && t[1][0] != '#' && (ieq(t[0], "block") || ieq(t[0], "decay"))) in_spinfo = ieq(t[1], "spinfo");
         else if (in_spinfo && (t[0] == "3" || t[0] == "4") && t.size() > 1) return true;
      }
      b = e + 1;
   }
   return false;
}

/// first violated clause of C14, or "" ; detail receives an explanation
std::string oracle(const Scenario& s, const Outcome& o, std::string& detail)
{
   if (!o.uncaught.empty()) { detail = "exception of type " + o.uncaught + " left main(): the real program would call std::terminate (SIGABRT)"; return "uncaught:" + o.uncaught; }
   if (o.status != 0 && o.status != 1) { detail = "exit status " + std::to_string(o.status); return "status:" + std::to_string(o.status); }
   const bool sink_fault = o.out_failed || o.err_failed;
   if (o.status == 1 && !sink_fault) {
      if (o.err.empty() && !has_spinfo_34(o.out)) { detail = "exit status 1 without any diagnostic on stderr or in SPINFO"; return "silent_failure"; }
   }
   if (!sink_fault) {
      // stdout must not carry diagnostics (lines the logging macros produce)
      std::vector<std::string> in_lines;
      bool have_in = false;
      size_t b = 0;
      while (b < o.out.size()) {
         size_t e = o.out.find('\n', b); if (e == std::string::npos) e = o.out.size();
         const std::string l = o.out.substr(b, e - b);
         // ("Problem: ..." lines are part of the detailed report by design -- Detailed_writer puts the
         //  problem text into its summary -- so they count as diagnostics only outside that format)
         if (l.compare(0, 8, "Warning:") == 0 || l.compare(0, 6, "Error:") == 0 || (l.compare(0, 8, "Problem:") == 0 && o.out.compare(0, 4, "====") != 0)) {
            if (!have_in) {
               size_t ib = 0;
               while (ib < s.doc.size()) { size_t ie = s.doc.find('\n', ib); if (ie == std::string::npos) ie = s.doc.size(); in_lines.push_back(norm_tokens(s.doc.substr(ib, ie - ib))); ib = ie + 1; }
               have_in = true;
            }
            const std::string n = norm_tokens(l);
            if (std::find(in_lines.begin(), in_lines.end(), n) == in_lines.end()) { detail = "diagnostic on stdout: '" + l.substr(0, 120) + "'"; return "diagnostic_on_stdout"; }
         }
         b = e + 1;
      }
      // a successful run always prints something (the requested output, the usage text or the version)
      if (o.status == 0 && o.out.empty()) { detail = "exit status 0 without any output"; return "empty_success"; }
      // for an SLHA-type output format and a document consisting of a shipped file plus well-formed
      // additions, stdout is an SLHA document: every line is empty, a comment, a block definition or an
      // indented data line -- anything else is not "the requested physics output"
      if (s.clean_doc && s.cfg_known_format >= 2 && s.post_args.empty() && s.pre_args.empty() && !o.in_failed && s.src != SRC_NONE) {
         size_t b3 = 0;
         while (b3 < o.out.size()) {
            size_t e = o.out.find('\n', b3); if (e == std::string::npos) e = o.out.size();
            const std::string l = o.out.substr(b3, e - b3);
            b3 = e + 1;
            if (l.empty() || l[0] == ' ' || l[0] == '\t' || l[0] == '#' || l[0] == '\r') continue;
            const auto t = sim::split(l);
            if (t.size() >= 2 && (ieq(t[0], "block") || ieq(t[0], "decay"))) continue;
            detail = "SLHA output contains a line that is neither comment, block definition nor data line: '" + l.substr(0, 100) + "'";
            return "stray_line_on_stdout";
         }
      }
      // known output format (last op wrote a complete, undamaged configuration block), successful run
      if (o.status == 0 && s.cfg_known_format >= 0 && s.post_args.empty() && s.pre_args.empty() && !o.in_failed) {
         const int f = s.cfg_known_format;
         if (f == 0) {
            const auto t = sim::split(o.out);
            char* endp = nullptr;
            if (t.size() != 1 || (std::strtod(t[0].c_str(), &endp), *endp != 0)) { detail = "minimal output format: stdout is not exactly one number: '" + o.out.substr(0, 120) + "'"; return "format:minimal"; }
         } else if (f == 1) {
            if (o.out.compare(0, 4, "====") != 0) { detail = "detailed output format: stdout does not start with the banner: '" + o.out.substr(0, 80) + "'"; return "format:detailed"; }
         } else {
            const char* blk = f == 2 ? "LOWEN" : f == 3 ? "SPhenoLowEnergy" : "GM2CalcOutput";
            bool found = false; size_t b2 = 0;
            while (b2 < o.out.size()) { size_t e = o.out.find('\n', b2); if (e == std::string::npos) e = o.out.size(); const auto t = sim::split(o.out.substr(b2, e - b2)); if (t.size() > 1 && ieq(t[0], "block") && ieq(t[1], blk)) found = true; b2 = e + 1; }
            if (!found) { detail = std::string("SLHA output format: block ") + blk + " missing on stdout"; return "format:slha"; }
         }
      }
   }
   return "";
}

struct RunResult { char sig[160]; char detail[400]; uint64_t hash; uint64_t steps; int status; char cls[96]; bool intact; char faults[256]; };

void classify(const Scenario& s, const Outcome& o, RunResult& r)
{
   // coverage class: (exit status, first stderr line class, writer reached, faults)
   std::string e1 = o.err.substr(0, o.err.find('\n'));
   std::string ecls = "none";
   if (!e1.empty()) { ecls = e1.compare(0, 6, "Error:") == 0 ? "error" : e1.compare(0, 8, "Warning:") == 0 ? "warning" : "other"; }
   std::string writer = "none";
   if (!o.out.empty()) {
      if (o.out.compare(0, 4, "====") == 0) writer = "detailed";
      else if (o.out.find("Block") != std::string::npos || o.out.find("BLOCK") != std::string::npos) writer = has_spinfo_34(o.out) ? (o.status ? "slha_error" : "slha_warning") : "slha";
      else if (o.out.compare(0, 6, "Usage:") == 0) writer = "usage";
      else writer = "minimal_or_version";
   }
   std::string c = std::to_string(o.status) + "/" + ecls + "/" + writer + "/" + s.type + (o.exited_via_exit ? "/exit()" : "");
   std::snprintf(r.cls, sizeof r.cls, "%s", c.c_str());
   std::string f;
   for (auto& k : s.fault_kinds) { if (!f.empty()) f += ","; f += k; }
   std::snprintf(r.faults, sizeof r.faults, "%s", f.c_str());
}

void run_plan(const std::vector<std::string>& plan, uint64_t run_index, const char* label, RunResult& rr, sim::Stats* st, std::string* out_copy = nullptr, std::string* err_copy = nullptr)
{
   std::memset(&rr, 0, sizeof rr);
   (void)label; g_prog.set(run_index, 0, "main");
   for (int attempt = 0; attempt < 3; ++attempt) {
      const long live0 = g_live;
      {
         Scenario s = build_scenario(g_corpus, plan);
         Outcome o;
         // delivery independence (see below): the reference execution -- same bytes, delivered at once -- runs in a
         // forked child, i.e. from exactly the process state this run starts from (state the program keeps for the
         // life of a process, e.g. a warn-once flag, is the same for both)
         const bool check_delivery = attempt == 0 && s.src == SRC_STDIN && s.chunk_max > 0 && s.readerr < 0 && s.sinkfail_out < 0 && s.sinkfail_err < 0;
         int dfd[2] = {-1, -1}; pid_t dpid = -1;
         if (check_delivery && pipe(dfd) == 0) {
            std::fflush(stdout);
            dpid = fork();
            if (dpid == 0) {
               close(dfd[0]);
               Scenario s1 = s; s1.chunk_max = 0;
               Outcome o1; run_l1(s1, o1);
               sim::Fnv h; h.u64((uint64_t)o1.status); h.str(o1.out); h.str(o1.err); h.str(o1.uncaught);
               uint64_t msg[2] = {h.h, (uint64_t)o1.status};
               (void)!write(dfd[1], msg, sizeof msg);
               _exit(0);
            }
            close(dfd[1]);
         }
         run_l1(s, o);
         std::string detail;
         std::string sig = oracle(s, o, detail);
         if (dpid > 0) {
            uint64_t msg[2] = {0, 0};
            const bool got = read(dfd[0], msg, sizeof msg) == (ssize_t)sizeof msg;
            close(dfd[0]);
            int st = 0; waitpid(dpid, &st, 0);
            sim::Fnv h; h.u64((uint64_t)o.status); h.str(o.out); h.str(o.err); h.str(o.uncaught);
            if (sig.empty() && got && msg[0] != h.h) {
               sig = "delivery_dependent_output";
               detail = "the same bytes on stdin give another result when they arrive in pieces of at most " + std::to_string(s.chunk_max) + " bytes than when they arrive at once (status " + std::to_string(o.status) + " vs " + std::to_string((long long)msg[1]) + ")";
            }
            // (a reference child that died is not judged here: the same document delivered at once is a run of its own elsewhere)
         } else if (dfd[0] >= 0) { close(dfd[0]); close(dfd[1]); }
         // the per-worker directory name appears in diagnostics: take it out of the hashed text
         auto strip = [](std::string t) { size_t p; while ((p = t.find(g_fsdir)) != std::string::npos) t.replace(p, g_fsdir.size(), "<FS>"); return t; };
         // the observable behaviour is that of the FIRST execution (later attempts exist only to tell a repeating leak
         // from one-time initialisation; the program may legitimately behave differently the second time in a process)
         if (attempt == 0) {
            sim::Fnv h; h.u64((uint64_t)o.status); h.str(strip(o.out)); h.str(strip(o.err)); h.str(o.uncaught);
            rr.hash = h.h; rr.steps = o.steps; rr.status = o.status; rr.intact = s.base_intact;
            std::snprintf(rr.detail, sizeof rr.detail, "%s", detail.c_str());
            classify(s, o, rr);
            if (out_copy) *out_copy = o.out;
            if (err_copy) *err_copy = o.err;
         }
         std::snprintf(rr.sig, sizeof rr.sig, "%s", attempt == 0 ? sig.c_str() : "");
         if (attempt == 0 && st) {
            st->add("steps", o.steps); st->add("status_" + std::to_string(o.status));
            st->add(o.cpu_ms < 10 ? "cpu_lt_10ms" : o.cpu_ms < 100 ? "cpu_lt_100ms" : o.cpu_ms < 1000 ? "cpu_lt_1s" : o.cpu_ms < 5000 ? "cpu_lt_5s" : "cpu_ge_5s");
            for (auto& k : s.fault_kinds) st->add("fault_" + k);
            if (s.readerr >= 0 && s.src == SRC_STDIN) st->add(o.in_failed ? "fault_read_error_fired" : "fault_read_error_configured_but_eof_first");
            if (o.out_failed) st->add("fault_sink_failure_stdout_fired");
            if (o.err_failed) st->add("fault_sink_failure_stderr_fired");
            if (s.chunk_max && o.underflows > 2) st->add("fault_chunked_delivery_multi_chunk");
            if (o.exited_via_exit) st->add("probe_exit_called");
            if (has_spinfo_34(o.out)) st->add(o.status ? "probe_print_error_spinfo" : "probe_warning_spinfo");
            if (o.status == 1 && !o.err.empty()) st->add("probe_failure_with_stderr");
            if (o.status == 0 && !o.out.empty()) st->add("probe_success_with_output");
            if (o.err.find("convert") != std::string::npos || o.err.find("conversion") != std::string::npos) st->add("probe_onshell_conversion_diagnostic");
            if (o.out.compare(0, 4, "====") == 0) st->add("probe_detailed_writer");
            if (s.cfg_known_format >= 0) st->add("probe_known_format_" + std::to_string(s.cfg_known_format));
         }
         if (rr.sig[0]) return;
      }
      const long delta = g_live - live0;
      if (delta == 0) return;
      if (attempt == 2) { std::snprintf(rr.sig, sizeof rr.sig, "leak"); std::snprintf(rr.detail, sizeof rr.detail, "%ld allocation(s) still live after main() returned (repeated 3 times)", delta); }
   }
}

// ------------------------------------------------------------ enumerations
/// all (file, via, byte offset) crash points; quick: line starts of all files + every byte of input/example.*
struct PrefixSpace {
   struct Seg { size_t file; int via; std::vector<size_t> offs; bool all; size_t n; };
   std::vector<Seg> segs; size_t total = 0;
   void build(bool quick)
   {
      for (size_t f = 0; f < g_corpus.files.size(); ++f) {
         const auto& cf = g_corpus.files[f];
         const bool ex = cf.rel.find("/input/example.") != std::string::npos;
         for (int via = 0; via < 2; ++via) {
            Seg s; s.file = f; s.via = via; s.all = !quick || ex;
            if (s.all) s.n = cf.bytes.size() + 1;
            else { s.offs = line_starts(cf.bytes); s.offs.push_back(cf.bytes.size()); s.n = s.offs.size(); }
            total += s.n; segs.push_back(s);
         }
      }
   }
   std::vector<std::string> plan(size_t idx) const
   {
      for (auto& s : segs) {
         if (idx < s.n) {
            const size_t off = s.all ? idx : s.offs[idx];
            return {"base corpus " + g_corpus.files[s.file].rel, "trunc " + std::to_string(off), std::string("src ") + (s.via ? "path" : "stdin")};
         }
         idx -= s.n;
      }
      return {};
   }
};
/// every token of every line x replacement kind x force_output on/off; for block definition lines
/// additionally the same replacements glued to the preceding token ("Q= 1.0E+03" -> "Q=<replacement>")
struct TokenSpace {
   struct Tok { size_t ord2; size_t ord; size_t field; bool glue; }; // ord: line ordinal among lines with tokens; ord2: among lines with >= 2 tokens
   struct Seg { size_t file; std::vector<Tok> toks; size_t n; };
   std::vector<Seg> segs; size_t total = 0;
   void build(bool quick)
   {
      for (size_t f = 0; f < g_corpus.files.size(); ++f) {
         const auto& cf = g_corpus.files[f];
         if (quick && cf.rel.find("/input/example.") == std::string::npos) continue;
         Seg s; s.file = f;
         size_t ord = 0, ord2 = 0;
         for (size_t b : line_starts(cf.bytes)) {
            auto tk = tokens_of(cf.bytes, b, line_end(cf.bytes, b));
            if (tk.empty()) continue;
            for (size_t k = 0; k < tk.size(); ++k) s.toks.push_back({ord2, ord, k, false});
            const std::string first = cf.bytes.substr(tk[0].first, tk[0].second - tk[0].first);
            if (tk.size() >= 2 && (ieq(first, "block") || ieq(first, "decay")))
               for (size_t k = 1; k < tk.size(); ++k) s.toks.push_back({ord2, ord, k, true});
            ++ord;
            if (tk.size() >= 2) ++ord2;
         }
         s.n = s.toks.size() * N_REPL_ENUM * 2;
         total += s.n; segs.push_back(s);
      }
   }
   std::vector<std::string> plan(size_t idx) const
   {
      for (auto& s : segs) {
         if (idx < s.n) {
            const size_t force = idx & 1, kind = (idx >> 1) % N_REPL_ENUM, tk = (idx >> 1) / N_REPL_ENUM;
            const Tok& t = s.toks[tk];
            std::vector<std::string> p = {"base corpus " + g_corpus.files[s.file].rel,
                                          t.glue ? "tokglue " + std::to_string(t.ord2) + " " + std::to_string(t.field - 1) + " " + std::to_string(kind)
                                                 : "tok " + std::to_string(t.ord) + " " + std::to_string(t.field) + " " + std::to_string(kind)};
            if (force) p.push_back("cfgkey 3 1");
            return p;
         }
         idx -= s.n;
      }
      return {};
   }
};
/// every numeric token of every data line x 10 moderate factors x force_output on/off (documents stay well-formed)
struct ScaleSpace {
   struct Tok { size_t ord, field; };
   struct Seg { size_t file; std::vector<Tok> toks; size_t n = 0; };
   std::vector<Seg> segs; size_t total = 0;
   void build(bool quick)
   {
      for (size_t f = 0; f < g_corpus.files.size(); ++f) {
         const auto& cf = g_corpus.files[f];
         if (quick && cf.rel.find("/input/example.") == std::string::npos) continue;
         Seg s; s.file = f;
         size_t ord = 0;
         for (size_t b : line_starts(cf.bytes)) {
            auto tk = tokens_of(cf.bytes, b, line_end(cf.bytes, b));
            if (tk.empty()) continue;
            const std::string first = cf.bytes.substr(tk[0].first, tk[0].second - tk[0].first);
            if (!(ieq(first, "block") || ieq(first, "decay")))
               for (size_t k = 1; k < tk.size(); ++k) { // values, not the first index
                  const std::string t = cf.bytes.substr(tk[k].first, tk[k].second - tk[k].first);
                  char* e = nullptr; std::strtod(t.c_str(), &e);
                  if (!t.empty() && *e == 0) s.toks.push_back({ord, k});
               }
            ++ord;
         }
         s.n = s.toks.size() * N_SCALE * 2;
         total += s.n; segs.push_back(s);
      }
   }
   std::vector<std::string> plan(size_t idx) const
   {
      for (auto& s : segs) {
         if (idx < s.n) {
            const size_t force = idx & 1, kind = (idx >> 1) % N_SCALE, tk = (idx >> 1) / N_SCALE;
            std::vector<std::string> p = {"base corpus " + g_corpus.files[s.file].rel, "scale " + std::to_string(s.toks[tk].ord) + " " + std::to_string(s.toks[tk].field) + " " + std::to_string(kind)};
            if (force) p.push_back("cfgkey 3 1");
            return p;
         }
         idx -= s.n;
      }
      return {};
   }
};
ScaleSpace g_scale, g_scaleq;

/// the iteration budget of the on-shell conversion lowered to 1, 2, 3, 10 on: the intact SLHA-type corpus files, and
/// every moderately scaled value of input/example.slha (inconsistent pole masses send the conversion through all of its
/// stages: fixed-point iterations that run out of budget, the root-finder fallback)
struct KnobSpace {
   std::vector<size_t> files; size_t nscale = 0, total = 0;
   static constexpr unsigned KN[4] = {1, 2, 3, 10};
   void build()
   {
      for (size_t f = 0; f < g_corpus.files.size(); ++f) if (g_corpus.files[f].type == "slha") files.push_back(f);
      for (auto& s : g_scaleq.segs) if (g_corpus.files[s.file].rel.find("example.slha") != std::string::npos) nscale = s.n / 2; // without the force_output variants
      total = 4 * (files.size() + nscale);
   }
   std::vector<std::string> plan(size_t idx) const
   {
      if (idx >= total) return {};
      const unsigned k = KN[idx % 4]; idx /= 4;
      std::vector<std::string> p;
      if (idx < files.size()) p = {"base corpus " + g_corpus.files[files[idx]].rel};
      else {
         idx -= files.size();
         size_t off = 0; for (auto& s : g_scaleq.segs) { if (g_corpus.files[s.file].rel.find("example.slha") != std::string::npos) break; off += s.n; }
         p = g_scaleq.plan(off + 2 * idx);
      }
      p.push_back("knob maxiter " + std::to_string(k));
      return p;
   }
};
constexpr unsigned KnobSpace::KN[4];
KnobSpace g_knobs;

/// every valid GM2CalcConfig combination (5 formats x 3 loop orders x 2^5 switches = 480) appended to a shipped file
struct ConfigSpace {
   std::vector<size_t> files; size_t total = 0;
   void build(bool quick)
   {
      for (size_t f = 0; f < g_corpus.files.size(); ++f) {
         const std::string& r = g_corpus.files[f].rel;
         if (quick && r.find("/input/example.") == std::string::npos && r.find("problems_negative_soft_mass") == std::string::npos &&
             r.find("thdm_contradictory_input") == std::string::npos && r.find("problems_throw_me2_convergence") == std::string::npos) continue;
         files.push_back(f);
      }
      total = files.size() * 480;
   }
   std::vector<std::string> plan(size_t idx) const
   {
      if (idx >= total) return {};
      const size_t f = files[idx / 480]; size_t c = idx % 480;
      const size_t fmt = c % 5; c /= 5; const size_t loop = c % 3; c /= 3;
      std::string l = "cfg " + std::to_string(fmt) + " " + std::to_string(loop);
      for (int b = 0; b < 5; ++b) l += " " + std::to_string((c >> b) & 1);
      return {"base corpus " + g_corpus.files[f].rel, l};
   }
};
PrefixSpace g_prefix, g_prefixq; TokenSpace g_token, g_tokenq; ConfigSpace g_config, g_configq;

/// boundary sweep over the length of names and arguments given on the command line: every length 1..640 and a few
/// large ones x 3 input types x {unopenable input file with a long name (one component / nested), long unknown option
/// before the input option, long second input option after it, long bare word}; x 2 output-format families
struct ArgLenSpace {
   std::vector<long> lens; size_t total = 0;
   static constexpr size_t NVAR = 6;
   void build() { for (long l = 1; l <= 640; ++l) lens.push_back(l); for (long l : {1000L, 1023L, 1024L, 1025L, 4095L, 4096L, 4097L, 10000L, 32768L, 65536L}) lens.push_back(l); total = lens.size() * 3 * NVAR * 2; }
   std::vector<std::string> plan(size_t idx) const
   {
      if (idx >= total) return {};
      static const char* const ty[] = {"slha", "gm2calc", "thdm"};
      const size_t fam = idx % 2; idx /= 2; const size_t var = idx % NVAR; idx /= NVAR; const size_t t = idx % 3; idx /= 3; const long len = lens[idx];
      std::string base;
      for (auto& f : g_corpus.files) if (f.rel.find(std::string("/input/example.") + (t == 0 ? "slha" : t == 1 ? "gm2" : "thdm")) != std::string::npos) base = f.rel;
      if (base.empty()) base = g_corpus.files[0].rel;
      std::vector<std::string> p = {"base corpus " + base, std::string("type ") + ty[t]};
      p.push_back(fam ? "cfg 3 2 0 0 0 1 1" : "cfg 1 2 0 0 0 1 1"); // SLHA-type output (diagnostics into SPINFO) / detailed output (diagnostics to stderr)
      switch (var) {
      case 0: p.push_back("src missinglong " + std::to_string(len) + " 0"); break;
      case 1: p.push_back("src missinglong " + std::to_string(len) + " 1"); break;
      case 2: p.push_back("longarg pre 0 " + std::to_string(len)); break;
      case 3: p.push_back("longarg post 1 " + std::to_string(len)); break;
      case 4: p.push_back("longarg post 2 " + std::to_string(len)); break;
      default: p.push_back("longarg post 4 " + std::to_string(len)); break;
      }
      return p;
   }
};
ArgLenSpace g_arglen;

/// every command line of up to three atoms of CMD_ATOMS (N + N^2 + N^3 sequences); the input document is the shipped
/// example of the type named by the first input option (stdin and the simulated file hold the same bytes)
struct CmdLineSpace {
   size_t total = 0;
   void build() { const size_t n = N_ATOMS; total = n + n * n + n * n * n; }
   std::vector<std::string> plan(size_t idx) const
   {
      if (idx >= total) return {};
      const size_t n = N_ATOMS;
      std::vector<size_t> seq;
      if (idx < n) seq = {idx};
      else if (idx < n + n * n) { idx -= n; seq = {idx / n, idx % n}; }
      else { idx -= n + n * n; seq = {idx / (n * n), (idx / n) % n, idx % n}; }
      std::string sfx = "slha";
      for (size_t a : seq) { const std::string at = CMD_ATOMS[a]; if (at.find("--gm2calc-input-file=") == 0) { sfx = "gm2"; break; } if (at.find("--thdm-input-file=") == 0) { sfx = "thdm"; break; } if (at.find("--slha-input-file=") == 0) break; }
      std::string base;
      for (auto& f : g_corpus.files) if (f.rel.find("/input/example." + sfx) != std::string::npos) base = f.rel;
      if (base.empty()) base = g_corpus.files[0].rel;
      std::vector<std::string> p = {"base corpus " + base, "src none"};
      for (size_t a : seq) p.push_back("rawarg " + std::to_string(a));
      return p;
   }
};
CmdLineSpace g_cmdline;

/// every command line of one or two atoms x every non-ordinary process environment, plus the tilde spellings as input source
struct EnvSpace {
   size_t total = 0, ncl = 0;
   void build() { const size_t n = N_ATOMS; ncl = n + n * n; total = (ncl + 3 * 4) * (N_ENV_MODES - 1); }
   std::vector<std::string> plan(size_t idx) const
   {
      if (idx >= total) return {};
      const int mode = 1 + (int)(idx % (N_ENV_MODES - 1)); idx /= (N_ENV_MODES - 1);
      std::vector<std::string> p;
      if (idx < ncl) p = g_cmdline.plan(idx);
      else { idx -= ncl; static const char* const ty[] = {"slha", "gm2calc", "thdm"}; p = {"base corpus " + g_corpus.files[0].rel, std::string("type ") + ty[idx / 4], "src tilde " + std::to_string(idx % 4)}; }
      p.push_back("env " + std::to_string(mode));
      return p;
   }
};
EnvSpace g_envspace;

/// boundary documents: (a) one CR / NUL inserted at every offset of the three example files, (b) the examples padded
/// to 64 KiB with one special byte written at every offset 2^k-2 .. 2^k+1 (k = 8..16: where block-wise readers end a
/// buffer), (c) a curated list of edge documents (DOS/Mac line endings, torn between CR and LF, no final newline,
/// torn inside a block header, exact buffer-size lengths).  Each via stdin and via path.
struct BoundarySpace {
   struct Ex { std::string rel, type; size_t len; };
   std::vector<Ex> ex; std::vector<std::vector<std::string>> edge; size_t n_ins = 0, n_chunk = 0, total = 0;
   static constexpr size_t NK = 6, NKPOS = 9 * 4;
   void build()
   {
      for (const char* sfx : {"slha", "gm2", "thdm"}) for (auto& f : g_corpus.files) if (f.rel.find(std::string("/input/example.") + sfx) != std::string::npos) ex.push_back({f.rel, f.type, f.bytes.size()});
      for (auto& e : ex) n_ins += (e.len + 1) * 2 * 2;             // offset x {cr, nul} x {stdin, path}
      n_chunk = ex.size() * NKPOS * NK * 2;
      for (auto& e : ex) for (const char* src : {"stdin", "path"}) {
         const std::vector<std::string> head = {"base corpus " + e.rel, std::string("src ") + src};
         auto add = [&](std::vector<std::string> ops) { std::vector<std::string> p = head; for (auto& o : ops) p.push_back(o); edge.push_back(p); };
         add({"crlf"}); add({"crlf mac"}); add({"crlf", "trunc -2"}); add({"crlf", "trunc -3"}); add({"trunc -2"}); // (positions are modulo size+1: -2 drops the last byte)
         add({"crlf", "trunc " + std::to_string(e.len / 2)}); add({"trunc 5"}); add({"trunc 6"}); add({"trunc 7"});
         for (long target : {255L, 256L, 257L, 511L, 512L, 513L, 1023L, 1024L, 1025L, 4095L, 4096L, 4097L, 8191L, 8192L, 8193L, 65535L, 65536L})
            if ((size_t)target > e.len) add({"pad " + std::to_string((size_t)target - e.len)}); else add({"trunc " + std::to_string(target)});
         for (long v = 0; v < 8; ++v) for (long front = 0; front < 2; ++front) for (const char* cfg : {"cfg 2 2 0 0 0 1 1", "cfg 3 2 0 0 0 1 1", "cfg 4 2 0 0 0 1 1", "cfg 4 2 0 0 1 1 1"})
            add({"preout " + std::to_string(v) + " " + std::to_string(front), cfg});
         for (long n : {100L, 3000L}) for (long nm = 0; nm < 5; ++nm) add({"manyscales " + std::to_string(n) + " " + std::to_string(nm)});
         for (long line : {0L, 1L, 2L, 5L, 12L, 30L, 60L}) for (long n : {1000L, 20000L}) add({"bulk " + std::to_string(line) + " " + std::to_string(n)});
         for (long target : {4096L, 8192L, 65536L}) if ((size_t)target > 2 * e.len) { add({"crlf", "pad " + std::to_string((size_t)target - e.len - 100), "trunc " + std::to_string(target)}); }
      }
      total = n_ins + n_chunk + edge.size();
   }
   std::vector<std::string> plan(size_t idx) const
   {
      if (idx >= total) return {};
      if (idx < n_ins) {
         for (auto& e : ex) {
            const size_t n = (e.len + 1) * 4;
            if (idx < n) { const size_t off = idx / 4, k = idx % 4; return {"base corpus " + e.rel, std::string("src ") + ((k & 1) ? "path" : "stdin"), "ins " + std::to_string(off) + ((k & 2) ? " nul 0 0" : " cr 0 0")}; }
            idx -= n;
         }
         return {};
      }
      idx -= n_ins;
      if (idx < n_chunk) {
         static const char* const kinds[] = {"cr", "nl", "nul", "hash", "space", "B"};
         const size_t src = idx % 2; idx /= 2; const size_t k = idx % NK; idx /= NK; const size_t pos = idx % NKPOS; idx /= NKPOS; const Ex& e = ex[idx % ex.size()];
         const long off = (256L << (pos / 4)) - 2 + (long)(pos % 4);
         return {"base corpus " + e.rel, std::string("src ") + (src ? "path" : "stdin"), "pad " + std::to_string(65536 - e.len), "put " + std::to_string(off) + " " + kinds[k]};
      }
      idx -= n_chunk;
      return edge[idx];
   }
   size_t first_edge() const { return n_ins + n_chunk; }
};
BoundarySpace g_boundary;

/// presence/absence of blocks: every block of every shipped file removed / reduced to its definition line / reduced to
/// its last entry, and every PAIR of blocks of input/example.* removed together
struct BlockSpace {
   struct Seg { size_t file, nblocks; bool pairs; size_t n; };
   std::vector<Seg> segs; size_t total = 0;
   void build(bool quick)
   {
      for (size_t f = 0; f < g_corpus.files.size(); ++f) {
         const auto& cf = g_corpus.files[f];
         const bool ex = cf.rel.find("/input/example.") != std::string::npos;
         if (quick && !ex && (f % 4) != 0) continue; // quick tier: the examples and every fourth test point
         size_t nb = 0;
         for (size_t b : line_starts(cf.bytes)) { auto tk = tokens_of(cf.bytes, b, line_end(cf.bytes, b)); if (tk.size() >= 2) { const std::string first = cf.bytes.substr(tk[0].first, tk[0].second - tk[0].first); if (ieq(first, "block") || ieq(first, "decay")) ++nb; } }
         Seg s{f, nb, ex, 0};
         s.n = 3 * nb + (ex ? nb * (nb - 1) / 2 + 2 * nb * (size_t)N_BLOCK_NAMES : 0);
         total += s.n; segs.push_back(s);
      }
   }
   std::vector<std::string> plan(size_t idx) const
   {
      for (auto& s : segs) {
         if (idx < s.n) {
            const std::string base = "base corpus " + g_corpus.files[s.file].rel;
            if (idx < 3 * s.nblocks) { static const char* const ops3[] = {"dropblock ", "emptyblock ", "lastentryonly "}; return {base, "src path", ops3[idx % 3] + std::to_string(idx / 3)}; }
            idx -= 3 * s.nblocks;
            const size_t npairs = s.nblocks * (s.nblocks - 1) / 2;
            if (idx >= npairs) { // examples: every block renamed to / cloned under every known block name
               idx -= npairs;
               const size_t which = idx % 2; idx /= 2;
               return {base, "src path", std::string(which ? "cloneblock " : "renameblock ") + std::to_string(idx / N_BLOCK_NAMES) + " " + std::to_string(idx % N_BLOCK_NAMES)};
            }
            size_t i = 0; while (idx >= s.nblocks - 1 - i) { idx -= s.nblocks - 1 - i; ++i; }
            const size_t j = i + 1 + idx;
            return {base, "src path", "dropblock " + std::to_string(j), "dropblock " + std::to_string(i)}; // higher index first: indices stay valid
         }
         idx -= s.n;
      }
      return {};
   }
};
BlockSpace g_blocks, g_blocksq;

std::vector<std::string> plan_of(const std::string& kind, uint64_t seed, uint64_t idx, std::string* mode)
{
   if (kind == "RUNS") return gen_plan(g_corpus, sim::run_seed(seed, ENGINE_ID, idx), mode);
   if (kind == "LIGHT") return gen_plan(g_corpus, sim::run_seed(seed, ENGINE_ID + 1000, idx), mode, true);
   if (mode) *mode = kind;
   if (kind == "PREFIX") return g_prefix.plan(idx);
   if (kind == "PREFIXQ") return g_prefixq.plan(idx);
   if (kind == "TOKEN") return g_token.plan(idx);
   if (kind == "TOKENQ") return g_tokenq.plan(idx);
   if (kind == "CONFIG") return g_config.plan(idx);
   if (kind == "CONFIGQ") return g_configq.plan(idx);
   if (kind == "ARGLEN") return g_arglen.plan(idx);
   if (kind == "CMDLINE") return g_cmdline.plan(idx);
   if (kind == "ENV") return g_envspace.plan(idx);
   if (kind == "SCALE") return g_scale.plan(idx);
   if (kind == "SCALEQ") return g_scaleq.plan(idx);
   if (kind == "KNOB") return g_knobs.plan(idx);
   if (kind == "FIFO") { // the three examples and three test points as a named FIFO, 8 cut patterns each (real-process layer)
      std::vector<size_t> fs;
      for (size_t f = 0; f < g_corpus.files.size(); ++f) if (g_corpus.files[f].rel.find("/input/example.") != std::string::npos) fs.push_back(f);
      for (size_t f = 0; f < g_corpus.files.size() && fs.size() < 6; f += 7) if (g_corpus.files[f].rel.find("/input/example.") == std::string::npos) fs.push_back(f);
      if (idx >= fs.size() * 8) return {};
      return {"base corpus " + g_corpus.files[fs[idx / 8]].rel, "src fifo", "chunks " + std::to_string(1000 + idx) + " 64"};
   }
   if (kind == "BOUNDARY") return g_boundary.plan(idx);
   if (kind == "BLOCKS") return g_blocks.plan(idx);
   if (kind == "BLOCKSQ") return g_blocksq.plan(idx);
   if (kind == "EDGE") return g_boundary.plan(g_boundary.first_edge() + idx);
   if (kind == "CORPUS") { // every shipped file: by path, on a pipe, as a regular file on stdin
      if (idx < 3 * g_corpus.files.size()) { std::vector<std::string> p = {"base corpus " + g_corpus.files[idx / 3].rel, std::string("src ") + ((idx % 3) == 1 ? "path" : "stdin")}; if (idx % 3 == 2) p.push_back("stdinkind file"); return p; } }
   return {};
}

} // namespace

int main(int argc, char** argv)
{
   g_prog.open(argc > 1 ? argv[1] : "");
   std::setvbuf(stdout, nullptr, _IOLBF, 0);
   if (argc < 4) { std::fprintf(stderr, "usage: clisim <progress> <corpus manifest> <fs dir>\n"); return 2; }
   g_corpus.load(argv[2]);
   g_fsdir = argv[3];
   mkdir(g_fsdir.c_str(), 0755);
   if (g_corpus.files.empty()) { std::printf("NOTE empty corpus\n"); }
   g_prefix.build(false); g_prefixq.build(true); g_token.build(false); g_tokenq.build(true); g_config.build(false); g_configq.build(true); g_arglen.build(); g_cmdline.build(); g_envspace.build(); g_boundary.build(); g_blocks.build(false); g_blocksq.build(true); g_scale.build(false); g_scaleq.build(true); g_knobs.build();

   // calibrate the logical step budget on the intact corpus of the current tree
   // (in a forked child: the worker itself must not have executed the program before its first run, so that a plan
   // executed by a fresh worker sees what a fresh process of the real program sees -- state the program keeps for
   // the life of a process, e.g. a warn-once flag, included)
   uint64_t max_steps = 0;
   g_budget = 4000000000ULL;
   const bool no_calibration = std::getenv("CLISIM_NO_CALIBRATION") != nullptr; // valgrind worker: no step clock, no budget
   if (!no_calibration) {
      int fd[2];
      if (pipe(fd) != 0) { std::fprintf(stderr, "pipe failed\n"); return 2; }
      std::fflush(stdout);
      const pid_t pid = fork();
      if (pid == 0) {
         close(fd[0]);
         uint64_t m = 0;
         for (size_t i = 0; i < 3 * g_corpus.files.size(); ++i) {
            RunResult rr; run_plan(plan_of("CORPUS", 0, i, nullptr), i, "calibration", rr, nullptr);
            m = std::max(m, rr.steps);
         }
         (void)!write(fd[1], &m, sizeof m);
         _exit(0);
      }
      close(fd[1]);
      if (read(fd[0], &max_steps, sizeof max_steps) != (ssize_t)sizeof max_steps) max_steps = 0; // the child died: the parent reports it (COUNT prints BUDGET with 0)
      close(fd[0]);
      int status = 0; waitpid(pid, &status, 0);
      if (!(WIFEXITED(status) && WEXITSTATUS(status) == 0)) { std::printf("NOTE calibration on the intact corpus ended abnormally (status %d)\n", status); }
   }
   if (!no_calibration) g_budget = std::max<uint64_t>(50 * max_steps, 2000000);

   std::string line;
   while (sim::read_line(line)) {
      const auto t = sim::split(line);
      if (t.empty()) continue;
      if (t[0] == "RUNS" || t[0] == "LIGHT" || t[0] == "PREFIX" || t[0] == "PREFIXQ" || t[0] == "TOKEN" || t[0] == "TOKENQ" || t[0] == "CONFIG" || t[0] == "CONFIGQ" || t[0] == "ARGLEN" || t[0] == "EDGE" || t[0] == "BLOCKS" || t[0] == "BLOCKSQ" || t[0] == "CMDLINE" || t[0] == "ENV" || t[0] == "BOUNDARY" || t[0] == "SCALE" || t[0] == "SCALEQ" || t[0] == "KNOB" || t[0] == "CORPUS") {
         const bool rnd = t[0] == "RUNS" || t[0] == "LIGHT";
         if (t.size() < (rnd ? 4u : 3u)) { std::printf("NOTE malformed command: %s\nDONE\n", line.c_str()); continue; }
         const uint64_t seed = rnd ? std::strtoull(t[1].c_str(), nullptr, 0) : 0;
         const uint64_t first = std::strtoull(t[rnd ? 2 : 1].c_str(), nullptr, 0), count = std::strtoull(t[rnd ? 3 : 2].c_str(), nullptr, 0);
         sim::Stats st; std::map<std::string, uint64_t> classes;
         for (uint64_t i = first; i < first + count; ++i) {
            std::string mode;
            const auto plan = plan_of(t[0], seed, i, &mode);
            if (plan.empty()) break;
            RunResult rr; run_plan(plan, i, t[0].c_str(), rr, &st);
            st.add("runs"); st.add("mode_" + mode);
            if (!rr.intact || rr.faults[0]) classes[std::string(rr.cls) + "|" + rr.faults]++;
            if (rr.sig[0]) { std::printf("CAND run=%" PRIu64 " sig=%s\n", i, rr.sig); st.add("candidates"); }
            if ((i & 63) == 0 || g_hash_all) std::printf("HASH run=%" PRIu64 " hash=%016" PRIx64 "\n", i, rr.hash);
         }
         if (g_knob_queries) { st.add("probe_knob_hook_max_iterations_asked", g_knob_queries); g_knob_queries = 0; }
         for (auto& kv : g_env_queries) st.add("probe_getenv_" + kv.first, kv.second);
         g_env_queries.clear();
         std::string cj = "{"; bool fst = true;
         for (auto& kv : classes) { if (!fst) cj += ","; fst = false; cj += "\"" + sim::jesc(kv.first) + "\":" + std::to_string(kv.second); }
         cj += "}";
         std::printf("STATS {\"counters\":%s,\"classes\":%s}\nDONE\n", st.json().c_str(), cj.c_str());
      } else if (t[0] == "HASHALL") {
         g_hash_all = t.size() > 1 && t[1] != "0";
         std::printf("DONE\n");
      } else if (t[0] == "COUNT") {
         std::printf("COUNT CONFIG %zu\nCOUNT CONFIGQ %zu\nCOUNT ARGLEN %zu\nCOUNT BOUNDARY %zu\nCOUNT EDGE %zu\nCOUNT SCALE %zu\nCOUNT SCALEQ %zu\nCOUNT CMDLINE %zu\nCOUNT ENV %zu\nCOUNT BLOCKS %zu\nCOUNT BLOCKSQ %zu\nCOUNT KNOB %zu\nCOUNT FIFO 48\n", g_config.total, g_configq.total, g_arglen.total, g_boundary.total, g_boundary.edge.size(), g_scale.total, g_scaleq.total, g_cmdline.total, g_envspace.total, g_blocks.total, g_blocksq.total, g_knobs.total);
         std::printf("COUNT PREFIX %zu\nCOUNT PREFIXQ %zu\nCOUNT TOKEN %zu\nCOUNT TOKENQ %zu\nCOUNT CORPUS %zu\nBUDGET %" PRIu64 " %" PRIu64 "\nDONE\n",
                     g_prefix.total, g_prefixq.total, g_token.total, g_tokenq.total, 3 * g_corpus.files.size(), g_budget, max_steps);
      } else if (t[0] == "DUMP" && t.size() >= 4) {
         for (auto& l : plan_of(t[1], std::strtoull(t[2].c_str(), nullptr, 0), std::strtoull(t[3].c_str(), nullptr, 0), nullptr)) std::printf("OP %s\n", l.c_str());
         std::printf("DONE\n");
      } else if (t[0] == "EXEC" || t[0] == "MATERIALISE") {
         const auto plan = sim::read_plan_file(t[1].c_str());
         RunResult rr; std::string out, err;
         run_plan(plan, 0, "exec", rr, nullptr, &out, &err);
         if (t[0] == "MATERIALISE" && t.size() > 2) {
            // write what layer L2 needs: document, argv, faults, and L1's observable behaviour
            const std::string dir = t[2];
            Scenario s = build_scenario(g_corpus, plan);
            auto put = [&](const char* n, const std::string& c) { FILE* f = std::fopen((dir + "/" + n).c_str(), "wb"); if (f) { std::fwrite(c.data(), 1, c.size(), f); std::fclose(f); } };
            put("doc.bin", s.doc); put("l1.out", out); put("l1.err", err);
            std::string meta = "type " + s.type + "\nsrc " + std::to_string((int)s.src) + "\nstatus " + std::to_string(rr.status) + "\nchunk " + std::to_string(s.chunk_seed) + " " + std::to_string(s.chunk_max) +
                               "\nreaderr " + std::to_string(s.readerr) + "\neintr " + std::to_string(s.eintr) + "\nsinkfail_out " + std::to_string(s.sinkfail_out) + "\nsinkfail_err " + std::to_string(s.sinkfail_err) + "\n";
            if (s.src == SRC_MISSING_LONG) meta += "longname " + s.longname + "\n";
            if (s.materialise_file) meta += "materialise 1\n";
            if (s.path_is_fifo) meta += "fifo 1\n";
            meta += "env " + std::to_string(s.env_mode) + "\n";
            meta += "maxiter " + std::to_string(s.max_iter_knob) + "\n";
            meta += std::string("stdinfile ") + (s.stdin_is_file ? "1" : "0") + "\n";
            if (s.src == SRC_TILDE) { static const char* const sp[] = {"~/input.in", "~", "~nobody/x", "~/"}; meta += std::string("tilde ") + sp[s.tilde_kind & 3] + "\n"; }
            auto esc = [](const std::string& a) { std::string o; for (char c : a) { if (c == '\\') o += "\\\\"; else if (c == '\n') o += "\\n"; else o += c; } return o; };
            for (auto& a : s.pre_args) meta += "prearg " + esc(a) + "\n";
            for (auto& a : s.post_args) meta += "postarg " + esc(a) + "\n";
            put("meta.txt", meta);
         }
         if (rr.detail[0]) std::printf("DETAIL %s\n", rr.detail);
         std::printf("TRACE status=%d steps=%" PRIu64 " class=%s faults=%s\n", rr.status, rr.steps, rr.cls, rr.faults);
         std::printf("TRACE stdout[0:200]=%s\n", sim::jesc(out.substr(0, 200)).c_str());
         std::printf("TRACE stderr[0:200]=%s\n", sim::jesc(err.substr(0, 200)).c_str());
         std::printf("RESULT sig=%s hash=%016" PRIx64 " status=%d steps=%" PRIu64 "\nDONE\n", rr.sig[0] ? rr.sig : "OK", rr.hash, rr.status, rr.steps);
      } else if (t[0] == "QUIT") break;
      else std::printf("NOTE unknown command: %s\nDONE\n", t[0].c_str());
   }
   return 0;
}
