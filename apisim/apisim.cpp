// apisim: C-API history simulator with mirrored C++ reference (decides C17).
// See DESIGN.md section 4.2.  Worker protocol on stdin/stdout (see common/orch.py).
#include "exec.hpp"

#include <new>

namespace apisim { long g_live_allocs = 0; }

// Live allocation counting: every history must return to its starting count.
void* operator new(std::size_t n) { void* p = std::malloc(n ? n : 1); if (!p) throw std::bad_alloc(); ++apisim::g_live_allocs; return p; }
void* operator new[](std::size_t n) { void* p = std::malloc(n ? n : 1); if (!p) throw std::bad_alloc(); ++apisim::g_live_allocs; return p; }
void operator delete(void* p) noexcept { if (p) { --apisim::g_live_allocs; std::free(p); } }
void operator delete[](void* p) noexcept { if (p) { --apisim::g_live_allocs; std::free(p); } }
void operator delete(void* p, std::size_t) noexcept { if (p) { --apisim::g_live_allocs; std::free(p); } }
void operator delete[](void* p, std::size_t) noexcept { if (p) { --apisim::g_live_allocs; std::free(p); } }

extern "C" {
__attribute__((used, visibility("default"))) const char* __asan_default_options() { return "exitcode=77:detect_leaks=0:abort_on_error=0:allocator_may_return_null=1"; }
__attribute__((used, visibility("default"))) const char* __ubsan_default_options() { return "exitcode=78:print_stacktrace=0"; }
// -finstrument-functions hooks are only used by clisim; the library objects are shared
__attribute__((no_instrument_function)) void __cyg_profile_func_enter(void*, void*) {}
__attribute__((no_instrument_function)) void __cyg_profile_func_exit(void*, void*) {}
}

using namespace apisim;

namespace {

const uint64_t ENGINE_ID = 17;

std::vector<const CFunc*> by_sig(std::initializer_list<const char*> sigs, const char* prefix = nullptr)
{
   std::vector<const CFunc*> v;
   for (size_t i = 0; i < n_cfuncs; ++i) {
      if (!cfuncs[i].p) continue;
      for (const char* s : sigs)
         if (std::string(cfuncs[i].sig) == s && (!prefix || std::string(cfuncs[i].name).find(prefix) != std::string::npos))
            v.push_back(&cfuncs[i]);
   }
   return v;
}

struct Tables {
   std::vector<const CFunc*> setters, getters, fns, errfns, strs, haves, tfns;
   Tables()
   {
      setters = by_sig({"_M_d", "_M_u_d", "_M_u_u_d"});
      for (auto* f : by_sig({"d_cM", "d_cM_u", "d_cM_u_u", "d_cM_u_u_dp", "d_cM_d"})) {
         const MEntry* e = find_mentry(f->name);
         if (e && e->kind == K_GETTER) getters.push_back(f); else fns.push_back(f);
      }
      errfns = by_sig({"E_M", "E_M_d_u"});
      strs = by_sig({"_M_s_u"});
      haves = by_sig({"i_M"});
      tfns = by_sig({"d_cT", "d_cT_d_d"});
   }
};
const Tables& tables() { static Tables t; return t; }

double special_value(sim::Rng& r)
{
   static const double sp[] = {0.0, -0.0, 1e-300, -1e-300, 1e300, -1e300, 5e-324, 1.7976931348623157e308,
                               std::numeric_limits<double>::quiet_NaN(), -std::numeric_limits<double>::quiet_NaN(),
                               std::numeric_limits<double>::infinity(), -std::numeric_limits<double>::infinity(),
                               -1.0, 1.0, -1e4, 1e19, 4294967296.0, -2147483649.0};
   return sp[r.below(sizeof sp / sizeof sp[0])];
}

/// value for a setter: physical magnitude for that parameter, or a special value
double setter_value(sim::Rng& r, const std::string& fn, double p_special)
{
   if (r.chance(p_special)) return special_value(r);
   double base = 500;
   if (fn.find("alpha") != std::string::npos) base = 0.0075;
   else if (fn.find("set_g3") != std::string::npos) base = 1.2;
   else if (fn.find("set_TB") != std::string::npos) return r.loguniform(0.5, 200);
   else if (fn.find("2") != std::string::npos && fn.find("set_m") != std::string::npos) base = 250000;
   else if (fn.find("MM_pole") != std::string::npos) base = 0.105;
   else if (fn.find("ML_pole") != std::string::npos) base = 1.777;
   else if (fn.find("MB_running") != std::string::npos) base = 4.18;
   else if (fn.find("MT_pole") != std::string::npos) base = 173;
   else if (fn.find("MW_pole") != std::string::npos) base = 80.4;
   else if (fn.find("MZ_pole") != std::string::npos) base = 91.2;
   double v = base * r.loguniform(0.2, 5);
   if (r.chance(0.1)) v = -v;
   return v;
}

std::string mline(int s, const std::string& fn, unsigned i = 0, unsigned k = 0, double v = 0, long x = 0)
{
   return "m " + std::to_string(s) + " " + fn + " " + std::to_string(i) + " " + std::to_string(k) + " " + sim::dstr(v) + " " + std::to_string(x);
}

std::string random_m_call(sim::Rng& r, int s, const CFunc* f, double p_special)
{
   const std::string sig = f->sig;
   const unsigned i = (unsigned)r.below(4), k = (unsigned)r.below(4);
   if (sig == "_M_s_u") { static const long big[] = {65, 96, 100, 128, 200, 256, 400, 512, 1000, 1024};
                          return mline(s, f->name, 0, r.chance(0.04) ? 1 : 0, 0, r.chance(0.25) ? 0 : r.chance(0.15) ? big[r.below(10)] : r.range(0, 64)); }
   if (sig == "E_M_d_u") {
      static const double precs[] = {1e-8, 1e-5, 1e-12, 1e-30, 0.0, 1.0, -1.0};
      double prec = precs[r.below(7)];
      if (r.chance(0.05)) prec = special_value(r);
      static const long iters[] = {1000, 100, 10, 1, 0, 2, 3, 5000};
      return mline(s, f->name, 0, 0, prec, iters[r.below(8)]);
   }
   if (sig == "d_cM_d") return mline(s, f->name, 0, 0, r.chance(p_special + 0.1) ? special_value(r) : r.uniform(-1e-8, 1e-8));
   if (sig[0] == '_' && sig.find("_d") != std::string::npos) return mline(s, f->name, i, k, setter_value(r, f->name, p_special));
   return mline(s, f->name, i, k, 0, r.chance(0.8) ? 1 : 0);
}

const char* const MB_FIELDS[] = {"mh", "mH", "mA", "mHp", "sin_beta_minus_alpha", "lambda_6", "lambda_7", "tan_beta", "m122", "zeta_u", "zeta_d", "zeta_l", "Delta_u", "Delta_d", "Delta_l", "Pi_u", "Pi_d", "Pi_l"};
const char* const GB_FIELDS[] = {"lambda", "tan_beta", "m122", "zeta_u", "zeta_d", "zeta_l", "Delta_u", "Delta_d", "Delta_l", "Pi_u", "Pi_d", "Pi_l"};
const char* const SM_FIELDS[] = {"alpha_em_0", "alpha_em_mz", "alpha_s_mz", "mh", "mw", "mz", "mu", "md", "mv", "ml", "ckm_real", "ckm_imag"};
const int YT_VALUES[] = {INT_MIN, -1, 0, 1, 2, 3, 4, 5, 6, 7, 8, 1000};

double ws_value(sim::Rng& r, const std::string& field, double p_special)
{
   if (r.chance(p_special)) return special_value(r);
   if (field[0] == 'm' && field != "m122") return r.loguniform(1, 3000);
   if (field == "m122") return r.uniform(-1e5, 1e6);
   if (field == "tan_beta") return r.loguniform(0.1, 100);
   if (field == "sin_beta_minus_alpha") return r.chance(0.8) ? r.uniform(0.9, 1.0) : r.uniform(-1.2, 1.2);
   if (field.find("alpha") == 0) return r.uniform(0.001, 0.2);
   return r.uniform(-2, 2);
}

std::string random_tw(sim::Rng& r, int wsp, double p_special)
{
   const std::string W = "tw " + std::to_string(wsp) + " ";
   switch (r.below(10)) {
   case 0: return W + "reset " + std::to_string(r.below(4));
   case 1: case 2: { const std::string f = MB_FIELDS[r.below(18)]; return W + "mb " + f + " " + std::to_string(r.below(3)) + " " + std::to_string(r.below(3)) + " " + sim::dstr(ws_value(r, f, p_special)); }
   case 3: case 4: { const std::string f = GB_FIELDS[r.below(12)]; return W + "gb " + f + " " + std::to_string(r.below(3)) + " " + std::to_string(r.below(3)) + " " + sim::dstr(ws_value(r, f, p_special)); }
   case 5: { const std::string f = SM_FIELDS[r.below(12)]; return W + "sm " + f + " " + std::to_string(r.below(3)) + " " + std::to_string(r.below(3)) + " " + sim::dstr(ws_value(r, f, p_special)); }
   case 6: case 7: return W + "yt " + std::to_string(r.chance(0.6) ? (int)r.range(1, 6) : YT_VALUES[r.below(12)]);
   case 8: if (r.chance(0.25)) { static const char* const z[] = {"sm", "ckm", "mb", "gb"}; return W + "zero " + z[r.below(4)]; }
           return W + (r.chance(0.5) ? "smdef" : "cfgdef") + (r.chance(0.1) ? " null" : "");
   default: return W + "cfg " + std::to_string(r.chance(0.5) ? 0 : (int)r.range(-1, 2)) + " " + std::to_string(r.chance(0.5) ? 1 : (int)r.range(-1, 2));
   }
}

std::string random_tnew(sim::Rng& r, int s, int wsp)
{
   return "tnew " + std::to_string(s) + " " + std::to_string(wsp) + " " + (r.chance(0.5) ? "mass" : "gauge") + " " +
          (r.chance(0.1) ? "1" : "0") + " " + (r.chance(0.1) ? "1" : "0") + " " + (r.chance(0.03) ? "1" : "0") + " " + (r.chance(0.03) ? "1" : "0");
}

std::string random_t_call(sim::Rng& r, int s, double p_special)
{
   const auto& T = tables();
   const CFunc* f = T.tfns[r.below(T.tfns.size())];
   const double a1 = r.chance(p_special + 0.1) ? special_value(r) : r.uniform(-1e-8, 1e-8);
   const double a2 = r.chance(p_special + 0.1) ? special_value(r) : r.uniform(-1e-9, 1e-9);
   return "t " + std::to_string(s) + " " + f->name + " " + sim::dstr(a1) + " " + sim::dstr(a2);
}

/// seeded random history (swarm style: the mode fixes the op mix of this run)
std::vector<std::string> gen_plan(uint64_t seed, std::string* mode_out = nullptr)
{
   sim::Rng r(seed);
   const auto& T = tables();
   std::vector<std::string> p;
   static const char* const modes[] = {"general", "fresh", "setget", "nonfinite", "thdm", "strings", "lifecycle", "mixed", "convert"};
   const int mode = (int)r.below(9);
   if (mode_out) *mode_out = modes[mode];
   const size_t len = 1 + r.below(40);
   double p_special = 0.05;
   if (mode == 3) p_special = 0.5;
   // weights: new, free, fill, setter, getter, fn, errfn, str, have, print, tw, tnew, tcall, tfree, x
   std::vector<double> wts;
   switch (mode) {
   case 0: wts = {2, 1, 4, 6, 6, 10, 4, 2, 1, 0.5, 0, 0, 0, 0, 0.3}; break;
   case 1: wts = {3, 1, 0, 0.5, 8, 12, 1, 3, 2, 1, 0, 0, 0, 0, 0}; break;
   case 2: wts = {1, 0.3, 1, 12, 12, 0, 0.5, 0, 0, 0, 0, 0, 0, 0, 0}; break;
   case 3: wts = {2, 1, 4, 8, 3, 8, 5, 2, 1, 0.5, 2, 1, 2, 0.3, 0.3}; break;
   case 4: wts = {0, 0, 0, 0, 0, 0, 0, 0, 0, 0, 8, 4, 10, 1, 1}; break;
   case 5: wts = {2, 0.5, 3, 2, 0, 0, 3, 12, 3, 1, 0, 0, 0, 0, 0}; break;
   case 6: wts = {6, 6, 2, 1, 1, 2, 1, 1, 0, 0, 2, 5, 2, 5, 0}; break;
   case 7: wts = {2, 1, 3, 4, 4, 6, 3, 2, 1, 0.5, 4, 2, 5, 1, 0.5}; break;
   default: wts = {2, 0.5, 5, 5, 2, 6, 8, 3, 2, 0.3, 0, 0, 0, 0, 0}; break;
   }
   // a third of the general / thdm / lifecycle / mixed / convert histories hand their handles between client threads
   const bool threads = (mode == 0 || mode == 4 || mode == 6 || mode == 7 || mode == 8) && r.chance(0.35);
   // most runs start from a usable handle so that deep states are reached
   if (mode != 4 && mode != 1 && r.chance(0.8)) {
      p.push_back(mline(0, "gm2calc_mssmnofv_new"));
      if (r.chance(0.85)) {
         const int pt = (int)r.below(4);
         p.push_back("mfill 0 " + std::to_string(pt) + " " + sim::dstr(r.chance(0.6) ? 1.0 : r.loguniform(0.2, 8)));
         if (r.chance(0.7)) p.push_back(mline(0, (pt == 0 || pt == 2) ? "gm2calc_mssmnofv_calculate_masses" : "gm2calc_mssmnofv_convert_to_onshell"));
      }
   }
   if (mode == 4 || (wts[12] > 0 && r.chance(0.5))) {
      p.push_back("tw 0 reset " + std::to_string(r.below(4)));
      if (r.chance(0.5)) p.push_back("tw 0 yt " + std::to_string(r.range(1, 6)));
      p.push_back(random_tnew(r, 0, 0));
   }
   while (p.size() < len) {
      const int sm = r.chance(0.75) ? 0 : (int)r.below(NM);
      const int stt = r.chance(0.75) ? 0 : (int)r.below(NT);
      const int wsp = r.chance(0.8) ? 0 : 1;
      switch (r.weighted(wts)) {
      case 0: p.push_back(mline(sm, "gm2calc_mssmnofv_new")); break;
      case 1: p.push_back(mline(sm, "gm2calc_mssmnofv_free")); break;
      case 2: p.push_back("mfill " + std::to_string(sm) + " " + std::to_string(r.below(4)) + " " + sim::dstr(r.chance(0.5) ? 1.0 : r.loguniform(0.2, 8))); break;
      case 3: p.push_back(random_m_call(r, sm, T.setters[r.below(T.setters.size())], p_special)); break;
      case 4: p.push_back(random_m_call(r, sm, T.getters[r.below(T.getters.size())], p_special)); break;
      case 5: p.push_back(random_m_call(r, sm, T.fns[r.below(T.fns.size())], p_special)); break;
      case 6: p.push_back(random_m_call(r, sm, T.errfns[r.below(T.errfns.size())], p_special)); break;
      case 7: p.push_back(random_m_call(r, sm, T.strs[r.below(T.strs.size())], p_special)); break;
      case 8: p.push_back(random_m_call(r, sm, T.haves[r.below(T.haves.size())], p_special)); break;
      case 9: p.push_back(r.chance(0.7) ? mline(sm, "print_mssmnofv") : mline(sm, "gm2calc_mssmnofv_set_verbose_output", 0, 0, 0, r.range(-1, 2))); break;
      case 10: p.push_back(random_tw(r, wsp, p_special)); break;
      case 11: p.push_back(random_tnew(r, stt, wsp)); break;
      case 12: p.push_back(random_t_call(r, stt, p_special)); break;
      case 13: p.push_back("t " + std::to_string(stt) + " gm2calc_thdm_free"); break;
      default: p.push_back(r.chance(0.5) ? "x yuk " + std::to_string(r.chance(0.5) ? r.range(-2, 9) : YT_VALUES[r.below(12)])
                                         : "x errstr " + std::to_string(r.chance(0.5) ? r.range(-2, 6) : YT_VALUES[r.below(12)])); break;
      }
   }
   if (threads) for (auto& l : p) { if (l.compare(0, 3, "tw ") == 0) continue; const double u = r.uniform(0, 1); if (u < 0.3) l = "@1 " + l; else if (u < 0.45) l = "@2 " + l; }
   return p;
}

// ------------------------------------------------------------------ sweep
// every function x every abstract state recipe x canonical argument sets
struct Sweep {
   std::vector<std::vector<std::string>> plans;
   Sweep()
   {
      const std::string N = mline(0, "gm2calc_mssmnofv_new");
      const double nan = std::numeric_limits<double>::quiet_NaN(), inf = std::numeric_limits<double>::infinity();
      std::vector<std::vector<std::string>> mrec = {
         {N},                                                                         // fresh
         {N, "mfill 0 0 0x1p+0"},                                                     // parameters set
         {N, "mfill 0 0 0x1p+0", mline(0, "gm2calc_mssmnofv_calculate_masses")},      // masses ok
         {N, "mfill 0 1 0x1p+0", mline(0, "gm2calc_mssmnofv_convert_to_onshell")},    // on-shell ok
         {N, "mfill 0 3 0x1p+0", mline(0, "gm2calc_mssmnofv_convert_to_onshell_params", 0, 0, 1e-30, 2)}, // conversion with warning
         {N, "mfill 0 2 0x1p+0", mline(0, "gm2calc_mssmnofv_calculate_masses")},      // tachyon: refused
         {N, "mfill 0 0 0x1p+0", mline(0, "gm2calc_mssmnofv_set_Mu", 0, 0, nan), mline(0, "gm2calc_mssmnofv_calculate_masses")}, // non-finite
         {N, "mfill 0 0 0x1p+0", mline(0, "gm2calc_mssmnofv_calculate_masses"), mline(0, "gm2calc_mssmnofv_set_TB", 0, 0, 50)}, // dirty
         {N, "mfill 0 0 0x1p+0", mline(0, "gm2calc_mssmnofv_set_TB", 0, 0, 0.0), mline(0, "gm2calc_mssmnofv_calculate_masses")}, // tan(beta) = 0
         {N, "mfill 0 1 0x1p+0", mline(0, "gm2calc_mssmnofv_set_MW_pole", 0, 0, 95.0), mline(0, "gm2calc_mssmnofv_convert_to_onshell")}, // MW > MZ
         {N, "mfill 0 0 0x1p+0", mline(0, "gm2calc_mssmnofv_set_MassB", 0, 0, inf), mline(0, "gm2calc_mssmnofv_calculate_masses")},
      };
      const double setvals[] = {123.5, 0.0, nan, inf, -1e300};
      for (auto& rec : mrec) {
         for (size_t fi = 0; fi < n_cfuncs; ++fi) {
            const CFunc& f = cfuncs[fi];
            if (!f.p) continue;
            const std::string sig = f.sig;
            if (sig.find('M') == std::string::npos) continue;
            if (sig == "M") continue;
            const MEntry* e = find_mentry(f.name);
            const int n1 = (e && e->d1) ? e->d1 : 1, n2 = (e && e->d2) ? e->d2 : 1;
            auto add = [&](const std::string& l) { auto p = rec; p.push_back(l); plans.push_back(p); };
            if (sig == "_M") { add(mline(0, f.name)); add(mline(1, f.name)); }
            else if (sig == "_M_s_u") { for (long len : {0L, 1L, 2L, 8L, 64L}) add(mline(0, f.name, 0, 0, 0, len)); add(mline(0, f.name, 0, 1, 0, 16)); }
            else if (sig == "E_M_d_u") { add(mline(0, f.name, 0, 0, 1e-8, 1000)); add(mline(0, f.name, 0, 0, 1e-30, 1)); add(mline(0, f.name, 0, 0, nan, 0)); add(mline(0, f.name, 0, 0, 0.0, 0)); }
            else if (sig == "d_cM_d") { for (double v : {0.0, 1e-9, nan, inf}) add(mline(0, f.name, 0, 0, v)); }
            else if (sig == "_M_i") { for (long x : {0L, 1L, -1L}) add(mline(0, f.name, 0, 0, 0, x)); }
            else if (sig[0] == '_' && sig.find("_d") != std::string::npos) {
               for (int i = 0; i < n1; ++i) for (int k = 0; k < n2; ++k) for (double v : setvals) add(mline(0, f.name, i, k, v));
            } else {
               for (int i = 0; i < n1; ++i) for (int k = 0; k < n2; ++k) { add(mline(0, f.name, i, k, 0, 1)); if (sig == "d_cM_u_u_dp") add(mline(0, f.name, i, k, 0, 0)); }
            }
         }
      }
      // THDM: basis kind x Yukawa type x configuration x SM, then every THDM function
      const auto& T = tables();
      for (const char* kind : {"mass", "gauge"})
         for (int yt : YT_VALUES)
            for (int cfg = 0; cfg < 4; ++cfg)       // default, force_output, no running couplings, null
               for (int smv = 0; smv < 3; ++smv)    // workspace SM, null, perturbed
                  for (int base = 0; base < 4; ++base) {
                     if (base && (cfg == 2 || smv == 2)) continue;
                     std::vector<std::string> rec = {"tw 0 reset " + std::to_string(base), "tw 0 yt " + std::to_string(yt)};
                     if (cfg == 1) rec.push_back("tw 0 cfg 1 1");
                     if (cfg == 2) rec.push_back("tw 0 cfg 0 0");
                     if (smv == 2) { rec.push_back("tw 0 sm mw 0 0 " + sim::dstr(95.0)); rec.push_back("tw 0 sm mu 2 0 " + sim::dstr(nan)); }
                     rec.push_back(std::string("tnew 0 0 ") + kind + " " + (smv == 1 ? "1" : "0") + " " + (cfg == 3 ? "1" : "0") + " 0 0");
                     for (auto* f : T.tfns) {
                        if (std::string(f->sig) == "d_cT") rec.push_back(std::string("t 0 ") + f->name);
                        else for (auto a : {std::make_pair(0.0, 0.0), std::make_pair(1e-9, 1e-10), std::make_pair(nan, inf)})
                           rec.push_back(std::string("t 0 ") + f->name + " " + sim::dstr(a.first) + " " + sim::dstr(a.second));
                     }
                     rec.push_back("t 0 gm2calc_thdm_free");
                     rec.push_back("t 0 gm2calc_thdm_free");
                     plans.push_back(rec);
                  }
      // invalid bases with and without force_output, null pointers
      for (const char* kind : {"mass", "gauge"})
         for (int force = 0; force < 2; ++force)
            for (const char* dmg : {"mb mh 0 0 0x1.9p+8", "mb tan_beta 0 0 0x0p+0", "mb sin_beta_minus_alpha 0 0 0x1p+1", "mb mA 0 0 nan", "mb mHp 0 0 inf",
                                    "gb tan_beta 0 0 -0x1p+0", "gb lambda 0 0 nan", "gb lambda 0 0 -0x1.4p+3", "gb m122 0 0 -0x1p+40", "mb m122 0 0 -inf"}) {
               std::vector<std::string> rec = {"tw 0 reset 0", std::string("tw 0 ") + dmg, std::string("tw 0 cfg ") + (force ? "1" : "0") + " 1",
                                               std::string("tnew 0 0 ") + kind + " 0 0 0 0"};
               for (auto* f : T.tfns) rec.push_back(std::string("t 0 ") + f->name + " 0x0p+0 0x0p+0");
               plans.push_back(rec);
            }
      for (const char* kind : {"mass", "gauge"}) {
         plans.push_back({"tw 0 reset 0", std::string("tnew 0 0 ") + kind + " 0 0 1 0"});
         plans.push_back({"tw 0 reset 0", std::string("tnew 0 0 ") + kind + " 1 1 0 1", "t 0 gm2calc_thdm_calculate_amu_1loop"});
      }
      // every field (every element of every array) of the three input structs x every special value x both bases:
      // what the C constructors do with a struct must be what the C++ constructors do with the same numbers
      {
         static const double sp[] = {0.0, -0.0, 1e-300, -1e-300, 1e300, -1e300, 5e-324, 1.7976931348623157e308, nan, -nan, inf, -inf, -1.0, 1.0, -1e4, 1e19, 1e-13, 1e-17};
         struct Fld { const char* which; const char* name; int ni, nk; };
         static const Fld flds[] = {
            {"sm", "alpha_em_0", 1, 1}, {"sm", "alpha_em_mz", 1, 1}, {"sm", "alpha_s_mz", 1, 1}, {"sm", "mh", 1, 1}, {"sm", "mw", 1, 1}, {"sm", "mz", 1, 1},
            {"sm", "mu", 3, 1}, {"sm", "md", 3, 1}, {"sm", "mv", 3, 1}, {"sm", "ml", 3, 1}, {"sm", "ckm_real", 3, 3}, {"sm", "ckm_imag", 3, 3},
            {"mb", "mh", 1, 1}, {"mb", "mH", 1, 1}, {"mb", "mA", 1, 1}, {"mb", "mHp", 1, 1}, {"mb", "sin_beta_minus_alpha", 1, 1}, {"mb", "lambda_6", 1, 1}, {"mb", "lambda_7", 1, 1},
            {"mb", "tan_beta", 1, 1}, {"mb", "m122", 1, 1}, {"mb", "zeta_u", 1, 1}, {"mb", "zeta_d", 1, 1}, {"mb", "zeta_l", 1, 1},
            {"mb", "Delta_u", 3, 3}, {"mb", "Delta_d", 3, 3}, {"mb", "Delta_l", 3, 3}, {"mb", "Pi_u", 3, 3}, {"mb", "Pi_d", 3, 3}, {"mb", "Pi_l", 3, 3},
            {"gb", "lambda", 3, 3}, {"gb", "tan_beta", 1, 1}, {"gb", "m122", 1, 1}, {"gb", "zeta_u", 1, 1}, {"gb", "zeta_d", 1, 1}, {"gb", "zeta_l", 1, 1},
            {"gb", "Delta_u", 3, 3}, {"gb", "Delta_d", 3, 3}, {"gb", "Delta_l", 3, 3}, {"gb", "Pi_u", 3, 3}, {"gb", "Pi_d", 3, 3}, {"gb", "Pi_l", 3, 3}};
         auto finish = [&](std::vector<std::string> rec, const char* kind) {
            rec.push_back(std::string("tnew 0 0 ") + kind + " 0 0 0 0");
            for (auto* f : T.tfns) rec.push_back(std::string("t 0 ") + f->name + " 0x1.5798ee2308c3ap-27 0x1.12e0be826d695p-30");
            rec.push_back("t 0 gm2calc_thdm_free");
            plans.push_back(rec);
         };
         for (auto& f : flds)
            for (int i = 0; i < f.ni; ++i) for (int k = 0; k < f.nk; ++k) {
               if (std::string(f.name) == "lambda" && i * 3 + k >= 7) continue;
               for (double v : sp)
                  for (const char* kind : {"mass", "gauge"}) {
                     if ((std::string(f.which) == "mb" && std::string(kind) == "gauge") || (std::string(f.which) == "gb" && std::string(kind) == "mass")) continue;
                     finish({"tw 0 reset 1", "tw 0 yt " + std::to_string(1 + (i + k) % 6), std::string("tw 0 ") + f.which + " " + f.name + " " + std::to_string(i) + " " + std::to_string(k) + " " + sim::dstr(v)}, kind);
                  }
            }
         // zero-initialised structs (`= {0}`), alone and in combination
         for (const char* kind : {"mass", "gauge"})
            for (const char* z : {"sm", "ckm", "mb", "gb"})
               for (int force = 0; force < 2; ++force)
                  finish({"tw 0 reset 1", std::string("tw 0 zero ") + z, std::string("tw 0 cfg ") + (force ? "1" : "0") + " 1"}, kind);
      }
      std::vector<std::string> misc = {"tw 0 smdef", "tw 0 smdef null", "tw 0 cfgdef", "tw 0 cfgdef null", "t 0 gm2calc_thdm_free", mline(0, "gm2calc_mssmnofv_free")};
      for (int v : YT_VALUES) { misc.push_back("x yuk " + std::to_string(v)); misc.push_back("x errstr " + std::to_string(v)); }
      plans.push_back(misc);
   }
};
const Sweep& sweep() { static Sweep s; return s; }

// --------------------------------------------------------------- execution
struct RunResult { std::string sig, detail; uint64_t hash = 0; uint64_t calls = 0; size_t op = 0; std::vector<std::string> trace; };

RunResult run_plan(const std::vector<std::string>& plan, uint64_t run_index, sim::Stats* stats, sim::Progress* prog, bool want_trace)
{
   RunResult rr;
   // a leak is only reported if it repeats: one-time lazy initialisation inside
   // libstdc++ (locale facets etc.) must not be mistaken for a handle leak
   // (12 repetitions: a bounded free-list / object pool behind new/free stops growing after a few and is not a leak)
   for (int attempt = 0; attempt < 12; ++attempt) {
      const long live0 = g_live_allocs;
      long delta = 0;
      {
         Exec ex;
         ex.stats = attempt == 0 ? stats : nullptr;
         ex.prog = prog;
         ex.run_index = run_index;
         ex.want_trace = want_trace;
         sim::Watchdog::arm(); // one history is at most a few dozen calls of milliseconds each
         ex.run(plan);
         sim::Watchdog::disarm();
         rr.hash = ex.log.h; rr.calls = ex.calls; rr.op = ex.op_index;
         if (want_trace) rr.trace = ex.trace;
         if (!ex.viol.empty()) { rr.sig = ex.viol[0].sig; rr.detail = ex.viol[0].detail; rr.op = ex.viol[0].op; return rr; }
      }
      delta = g_live_allocs - live0;
      if (delta == 0) return rr;
      if (attempt == 11) { rr.sig = "leak"; rr.detail = std::to_string(delta) + " allocation(s) still live after all handles were freed (and again in each of 12 repetitions of the history)"; }
   }
   return rr;
}

void merge_cover(sim::Stats& st, std::map<std::string, uint64_t>& triples)
{
   for (auto it = st.c.begin(); it != st.c.end();) {
      if (it->first.compare(0, 2, "t|") == 0) { triples[it->first.substr(2)] += it->second; it = st.c.erase(it); }
      else ++it;
   }
}

} // namespace

int main(int argc, char** argv)
{
   sim::Progress prog;
   prog.open(argc > 1 ? argv[1] : "");
   std::setvbuf(stdout, nullptr, _IOLBF, 0);
   // start-up check of the hand written mirror against the generated table
   {
      std::string missing;
      for (auto& e : mssm_entries()) if (!find_cfunc("gm2calc_mssmnofv_" + e.name)) missing += " gm2calc_mssmnofv_" + e.name;
      for (auto& e : thdm_entries()) if (!find_cfunc("gm2calc_thdm_" + e.name)) missing += " gm2calc_thdm_" + e.name;
      if (!missing.empty()) std::printf("NOTE mirror entries without a declared C function:%s\n", missing.c_str());
   }
   // warm up one-time initialisation (iostream, locale) before allocation counting matters
   { std::vector<std::string> wu = sweep().plans[2]; run_plan(wu, 0, nullptr, &prog, false); }

   std::string line;
   bool hash_all = false;
   while (sim::read_line(line)) {
      const auto t = sim::split(line);
      if (t.empty()) continue;
      if (t[0] == "HASHALL") { hash_all = t.size() > 1 && t[1] != "0"; std::printf("DONE\n"); continue; }
      if (t[0] == "RUNS" || t[0] == "SWEEP") {
         const bool sw = t[0] == "SWEEP";
         const uint64_t seed = sw ? 0 : std::strtoull(t[1].c_str(), nullptr, 0);
         const uint64_t first = std::strtoull(t[sw ? 1 : 2].c_str(), nullptr, 0), count = std::strtoull(t[sw ? 2 : 3].c_str(), nullptr, 0);
         sim::Stats st; std::map<std::string, uint64_t> triples;
         for (uint64_t i = first; i < first + count; ++i) {
            std::vector<std::string> plan; std::string mode = "sweep";
            if (sw) { if (i >= sweep().plans.size()) break; plan = sweep().plans[i]; }
            else plan = gen_plan(sim::run_seed(seed, ENGINE_ID, i), &mode);
            RunResult rr = run_plan(plan, i, &st, &prog, false);
            st.add("runs"); st.add("calls", rr.calls); st.add("ops", plan.size()); st.add("mode_" + mode);
            if (!rr.sig.empty()) { std::printf("CAND run=%" PRIu64 " sig=%s\n", i, rr.sig.c_str()); st.add("candidates"); }
            if ((i & 63) == 0 || hash_all) std::printf("HASH run=%" PRIu64 " hash=%016" PRIx64 "\n", i, rr.hash);
         }
         merge_cover(st, triples);
         std::string tj = "{";
         bool fst = true;
         for (auto& kv : triples) { if (!fst) tj += ","; fst = false; tj += "\"" + sim::jesc(kv.first) + "\":" + std::to_string(kv.second); }
         tj += "}";
         std::printf("STATS {\"counters\":%s,\"triples\":%s}\nDONE\n", st.json().c_str(), tj.c_str());
      } else if (t[0] == "SWEEPCOUNT") {
         std::printf("COUNT %zu\nDONE\n", sweep().plans.size());
      } else if (t[0] == "DUMP" || t[0] == "DUMPSWEEP") {
         std::vector<std::string> plan;
         if (t[0] == "DUMP") plan = gen_plan(sim::run_seed(std::strtoull(t[1].c_str(), nullptr, 0), ENGINE_ID, std::strtoull(t[2].c_str(), nullptr, 0)));
         else { const size_t k = std::strtoull(t[1].c_str(), nullptr, 0); if (k < sweep().plans.size()) plan = sweep().plans[k]; }
         for (auto& l : plan) std::printf("OP %s\n", l.c_str());
         std::printf("DONE\n");
      } else if (t[0] == "EXEC") {
         // a plan may consist of several histories separated by "newhistory" lines: they are executed one after the
         // other in this process (all handles freed in between), which is how a seeded worker executes its runs;
         // the verdict is that of the LAST history; the earlier ones are its context (they may violate themselves: in a
         // tree with a defect most contexts do, and the candidate under examination is the last history)
         const auto all = sim::read_plan_file(t[1].c_str());
         std::vector<std::vector<std::string>> hist(1);
         for (auto& l : all) { const auto tk = sim::split(l); if (!tk.empty() && tk[0] == "newhistory") { if (!hist.back().empty()) hist.emplace_back(); } else hist.back().push_back(l); }
         if (hist.back().empty() && hist.size() > 1) hist.pop_back();
         RunResult rr; sim::Fnv hh; uint64_t calls = 0;
         for (size_t k = 0; k < hist.size(); ++k) {
            // context replays must allocate exactly like the seeded worker did (address reuse is part of what they
            // reproduce): no trace collection there
            rr = run_plan(hist[k], k, nullptr, &prog, hist.size() == 1);
            hh.u64(rr.hash); calls += rr.calls;
            if (!rr.sig.empty() && k + 1 == hist.size() && hist.size() > 1) rr.detail = "history " + std::to_string(k + 1) + " of " + std::to_string(hist.size()) + " in this process: " + rr.detail;
         }
         if (hist.size() > 1) { rr.hash = hh.h; rr.calls = calls; }
         for (auto& l : rr.trace) std::printf("TRACE %s\n", l.c_str());
         if (!rr.detail.empty()) std::printf("DETAIL op=%zu %s\n", rr.op, rr.detail.c_str());
         std::printf("RESULT sig=%s hash=%016" PRIx64 " calls=%" PRIu64 "\nDONE\n", rr.sig.empty() ? "OK" : rr.sig.c_str(), rr.hash, rr.calls);
      } else if (t[0] == "FUNCS") {
         for (size_t i = 0; i < n_cfuncs; ++i)
            std::printf("FUNC %s %s %s %s\n", cfuncs[i].name, cfuncs[i].sig, cfuncs[i].p ? "swept" : "unknown_signature",
                        (find_mentry(cfuncs[i].name) || find_tentry(cfuncs[i].name)) ? "mirrored" : "special_or_unmirrored");
         std::printf("DONE\n");
      } else if (t[0] == "QUIT") break;
      else std::printf("NOTE unknown command: %s\nDONE\n", t[0].c_str());
   }
   return 0;
}
