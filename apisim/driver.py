"""C17 driver: builds apisim from the working tree and runs sweep + seeded histories."""
import os
import subprocess
import sys
import time

import build
import orch

VERIF = build.VERIF
HERE = os.path.join(VERIF, "apisim")
PROP = "C17"
ENV = {"UBSAN_OPTIONS": "exitcode=78:print_stacktrace=0:silence_unsigned_overflow=1"}
TWIN = None
# address reuse: with ASan's quarantine switched off a freed handle's memory is handed out again at once, which is
# what lets state keyed on a handle's address (in the wrappers or the library) meet a different model
ENV_R = dict(ENV, ASAN_OPTIONS="quarantine_size_mb=0:thread_local_quarantine_size_kb=0")
ENV_A = dict(ENV, ASAN_OPTIONS="malloc_fill_byte=190:max_malloc_fill_size=65536")
ENV_Z = dict(ENV, ASAN_OPTIONS="malloc_fill_byte=0:max_malloc_fill_size=65536")


def build_engine():
    objs = build.lib_objects("asan")
    gen = os.path.join(build.BUILD, "gen", "apisim" + os.path.basename(build.BIN)[3:])
    os.makedirs(gen, exist_ok=True)
    env = dict(os.environ, VERIF_REPO=build.REPO)
    out = subprocess.run([sys.executable, os.path.join(HERE, "gen_table.py")], stdout=subprocess.PIPE, env=env, check=True).stdout
    inc = os.path.join(gen, "apisim_gen.inc")
    if not os.path.exists(inc) or open(inc, "rb").read() != out:
        open(inc, "wb").write(out)
    flags = [f for f in build.VARIANTS["asan"] if not f.startswith("-finstrument")] + build.INCLUDES + ["-I", gen]
    eo = build.compile_cached(os.path.join(HERE, "apisim.cpp"), flags)
    # twin build: uninitialised automatic variables are zero instead of a garbage pattern (see common/build.py)
    global TWIN
    TWIN = build.link([eo] + build.lib_objects("asanz"), os.path.join(build.BIN, "apisim_z"), ["-fsanitize=address,undefined"])
    return build.link([eo] + objs, os.path.join(build.BIN, "apisim"), ["-fsanitize=address,undefined"])


def main(a):
    t0 = time.time()
    binary = build_engine()
    t_build = time.time() - t0
    nw = a.workers or min(16, os.cpu_count() or 8)

    if a.replay:
        import json
        rep = json.load(open(a.replay))
        if rep.get("engine") == "apisim-twin":
            x = orch.exec_plan(binary, rep["ops"], ENV_A)
            y = orch.exec_plan(TWIN, rep["ops"], ENV_Z)
            r = {"sig": "uninitialised_value" if x["hash"] != y["hash"] else "OK", "detail": ["pattern build hash %s, zero build hash %s" % (x["hash"], y["hash"])]}
        elif str(rep.get("engine", "")).endswith("-cmds"):
            env = ENV_R if "reuse" in rep.get("engine") else ENV
            found = orch.exec_commands(binary, rep["commands"], env)
            got = [sg for rn, sg in found if rn == rep.get("run_index") and orch.same_violation(sg, rep.get("signature"))]
            r = {"sig": got[0] if got else "OK", "detail": ["%d candidate(s) reported by the re-issued commands" % len(found)]}
        elif rep.get("engine") == "apisim-reuse":
            r = orch.replay_file(binary, a.replay, ENV_R)
        else:
            r = orch.replay_file(binary, a.replay, ENV)
        want = rep.get("signature")
        print("replay %s: expected %s, got %s" % (a.replay, want, r["sig"]))
        for d in r["detail"]:
            print("  " + d)
        if orch.same_violation(r["sig"], want):
            print("VIOLATION property=%s replay=%s" % (PROP, a.replay))
            return 1
        return 0

    orch.clean_replays(PROP)
    # 1. exhaustive sweep: function x abstract state x canonical arguments
    w = orch.Worker(binary, 99, ENV)
    lines, _ = orch.command(w, "SWEEPCOUNT")
    nsweep = int([l for l in lines if l.startswith("COUNT")][0].split()[1])
    flines, _ = orch.command(w, "FUNCS")
    w.close()
    funcs = [l.split()[1:] for l in flines if l.startswith("FUNC ")]
    unswept = [f[0] for f in funcs if f[2] != "swept"]

    t1 = time.time()
    sw = orch.run_batch(binary, "SWEEP", 0, 0, nsweep, nw, ENV, chunk=100)
    t_sweep = time.time() - t1

    # 2. seeded random histories
    if a.tier == "quick":
        nrand = 20000
        deadline = None
    else:
        nrand = 10 ** 9
        deadline = time.time() + 60 * (a.minutes if a.minutes is not None else 30)
    t1 = time.time()
    if deadline:
        rnd = {"stats": {}, "candidates": [], "hashes": {}, "executed": 0, "deaths": 0, "notes": []}
        first = 0
        while time.time() < deadline:
            part = orch.run_batch(binary, "RUNS", a.seed, first, 16000 * nw // 16 * 4, nw, ENV, chunk=250, deadline=deadline)
            first += 16000 * nw // 16 * 4
            orch.merge_stats(rnd["stats"], part["stats"])
            rnd["candidates"] += part["candidates"]
            rnd["hashes"].update(part["hashes"])
            rnd["executed"] += part["executed"]
            rnd["deaths"] += part["deaths"]
            if part.get("stopped_early"):
                rnd["stopped_early"] = True
                break
            if len(rnd["candidates"]) > 2000:
                break
    else:
        rnd = orch.run_batch(binary, "RUNS", a.seed, 0, nrand, nw, ENV, chunk=250)
    t_rand = time.time() - t1

    # 3. determinism gate: a sample of runs again, in other processes, with one worker
    ngate = 1024 if a.tier == "quick" else 8192
    g1 = orch.run_batch(binary, "RUNS", a.seed, 0, ngate, 1 if a.tier == "quick" else 3, ENV, chunk=128)
    harness_errors = []
    mism = [r for r, h in g1["hashes"].items() if r in rnd["hashes"] and rnd["hashes"][r] != h]
    compared = len([r for r in g1["hashes"] if r in rnd["hashes"]])
    if mism:
        # a run whose two fresh-process executions agree with each other is a function of its plan; the difference between
        # the batches then comes from state carried over from earlier histories of a worker process (code under test)
        for r in sorted(mism)[:6]:
            pl = orch.dump_plan(binary, "DUMP %d %d" % (a.seed, r), ENV)
            x, y = orch.exec_plan(binary, pl, ENV), orch.exec_plan(binary, pl, ENV)
            if x["hash"] != y["hash"]:
                harness_errors.append("event-log hash of run %d differs between two fresh-process executions (%s / %s)" % (r, x["hash"], y["hash"]))
        if not harness_errors:
            print("NOTE %d run(s) of the determinism gate have event logs that depend on earlier histories of their worker process (each is deterministic on its own)" % len(mism))
    c1 = sorted((c["run"], c["sig"]) for c in g1["candidates"])
    c0 = sorted((c["run"], c["sig"]) for c in rnd["candidates"] if c["run"] < ngate)
    gate_diff = (c1 != c0 and not (g1["stopped_early"] or rnd.get("stopped_early")))

    # 3a. address reuse: the first histories again with ASan's quarantine off (freed handle memory is reused at once)
    nreuse = 6000 if a.tier == "quick" else 300000
    reuse = orch.run_batch(binary, "RUNS", a.seed, 0, nreuse, nw, ENV_R, chunk=250)

    # 3b. uninitialised-memory twins: the sweep and a sample of the histories again in two builds whose
    # uninitialised stack and fresh heap contents differ (pattern vs. zero); every result of every call is in
    # the event-log hash, so any difference means a value computed from uninitialised memory crossed the API
    t1 = time.time()
    twin = {"runs": 0, "differences": 0}
    twin_cands = []
    for kind, seed, count in (("SWEEP", 0, nsweep), ("RUNS", a.seed, 6000 if a.tier == "quick" else 200000)):
        ra = orch.run_batch(binary, kind, seed, 0, count, nw, ENV_A, chunk=250, init_cmds=("HASHALL 1",))
        rz = orch.run_batch(TWIN, kind, seed, 0, count, nw, ENV_Z, chunk=250, init_cmds=("HASHALL 1",))
        for r, h in ra["hashes"].items():
            if r in rz["hashes"]:
                twin["runs"] += 1
                if rz["hashes"][r] != h:
                    twin["differences"] += 1
                    twin_cands.append({"run": r, "kind": "sweep" if kind == "SWEEP" else "random", "seed": seed})
    t_twin = time.time() - t1

    # 4. candidates -> confirmed, minimised, replayable violations
    cands = []
    for c in sw["candidates"]:
        c = dict(c, kind="sweep", seed=0)
        cands.append(c)
    for c in rnd["candidates"]:
        c = dict(c, kind="random", seed=a.seed)
        cands.append(c)

    def get_plan(c):
        if c.get("kind", "random") == "sweep":
            return orch.dump_plan(binary, "DUMPSWEEP %d" % c["run"], ENV)
        return orch.dump_plan(binary, "DUMP %d %d" % (c["seed"], c["run"]), ENV)

    if gate_diff:
        harness_errors += orch.gate_candidate_difference(g1["candidates"], [c for c in rnd["candidates"] if c["run"] < ngate],
                                                         lambda c: orch.dump_plan(binary, "DUMP %d %d" % (a.seed, c["run"]), ENV), binary, ENV)
    dumper = []

    def context_plan(c, k):
        """the last k runs the candidate's worker process executed before it, then the candidate itself"""
        prior = [r for a0, n0 in c["ctx"] for r in range(a0, a0 + n0)][-k:]
        if not dumper:
            dumper.append(orch.Worker(binary, 97, ENV, tag="dump"))
        out = []
        for r in prior + [c["run"]]:
            lines, death = orch.command(dumper[0], ("DUMPSWEEP %d" % r) if c["kind"] == "sweep" else ("DUMP %d %d" % (c["seed"], r)), timeout=120)
            if out:
                out.append("newhistory")
            out += [l[3:] for l in lines if l.startswith("OP ")]
        return out

    try:
        def context_cmds(c):
            return [("SWEEP %d %d" % (a0, n0)) if c["kind"] == "sweep" else ("RUNS %d %d %d" % (c["seed"], a0, n0)) for a0, n0 in c["ctx"][:-1]] + \
                   [("SWEEP %d %d" % (c["ctx"][-1][0], c["ctx"][-1][1] + 1)) if c["kind"] == "sweep" else ("RUNS %d %d %d" % (c["seed"], c["ctx"][-1][0], c["ctx"][-1][1] + 1))]

        viol, known_hits, herr = orch.process_candidates(PROP, "apisim", binary, cands, get_plan, ENV, context_plan=context_plan, context_cmds=context_cmds)
        main_sigs = set(c["sig"] for c in cands)
        rc = [dict(c, kind="random", seed=a.seed) for c in reuse["candidates"] if c["sig"] not in main_sigs]
        if rc:
            v2, k2, h2 = orch.process_candidates(PROP, "apisim-reuse", binary, rc, get_plan, ENV_R, context_plan=context_plan, context_cmds=context_cmds)
            viol += v2
            known_hits += k2
            herr += h2
    finally:
        for d in dumper:
            d.close()
    harness_errors += herr
    for c in sorted(twin_cands, key=lambda x: x["run"])[:3]:
        plan = get_plan(c)

        def differs(ops):
            x = orch.exec_plan(binary, ops, ENV_A)
            y = orch.exec_plan(TWIN, ops, ENV_Z)
            return x["hash"] != y["hash"] and "dead" not in (x["hash"], y["hash"])
        if not (differs(plan) and differs(plan)):
            print("NOTE twin difference of %s run %d is not shown by fresh processes (it depends on earlier histories of its worker process); dropped" % (c["kind"], c["run"]))
            continue
        small, ncalls = orch.ddmin(plan, differs, budget=150)
        rdir = os.path.join(orch.OUT, "replays", PROP)
        os.makedirs(rdir, exist_ok=True)
        path = os.path.join(rdir, "uninitialised_value-%s-run%d.json" % (c["kind"], c["run"]))
        import json as _json
        _json.dump({"property": PROP, "engine": "apisim-twin", "signature": "uninitialised_value", "run_index": c["run"], "kind": c["kind"], "seed": c["seed"], "ops": small,
                    "original_length": len(plan), "trace": orch.exec_plan(binary, small, ENV_A)["trace"][-30:]}, open(path, "w"), indent=1)
        viol.append({"sig": "uninitialised_value", "path": path, "ops": len(small), "from_ops": len(plan), "count": twin["differences"]})
        break

    # 5. evidence
    stats = {}
    orch.merge_stats(stats, sw["stats"])
    orch.merge_stats(stats, rnd["stats"])
    counters = stats.get("counters", {})
    triples = stats.get("triples", {})
    fn_reached = set(k.split("|")[0] for k in triples)
    never = sorted(f[0] for f in funcs if f[2] == "swept" and f[0] not in fn_reached)
    samples = []
    for k in (0, 1, 2):
        samples.append({"kind": "random history", "seed": a.seed, "run": k, "ops": orch.dump_plan(binary, "DUMP %d %d" % (a.seed, k), ENV)})
    samples.append({"kind": "sweep plan", "index": 5000 % max(nsweep, 1), "ops": orch.dump_plan(binary, "DUMPSWEEP %d" % (5000 % max(nsweep, 1)), ENV)})
    wall = time.time() - t0
    nruns = sw["executed"] + rnd["executed"]
    ev = {
        "property_id": PROP, "tier": a.tier, "seed": a.seed, "level": "exploration", "wall_s": round(wall, 2),
        "violations": len(viol),
        "coverage": {
            "evaluations": nruns,
            "distinct_nontrivial": len(triples),
            "rule": "evaluations = executed histories (sweep plans + seeded random histories of 1..40 ops). distinct_nontrivial = number of distinct "
                    "(C function, abstract handle state, outcome class) triples observed, abstract state in {none,fresh,set,masses,onshell,refused,dirty} "
                    "for MSSM handles and (basis kind, Yukawa type class, null arguments, force_output) for THDM handles, outcome class in "
                    "{finite,zero,nan,inf,cpp_throws_<class>,err<code>[+warning][+problem],set_<class>,len..., ...}",
            "samples": samples,
            "exhaustive": False,
            "sweep": {"plans": nsweep, "executed": sw["executed"], "exhaustive": sw["executed"] == nsweep,
                      "what": "every declared C function x 11 MSSM state recipes x canonical arguments (all valid indices); THDM: 2 bases x 12 Yukawa type values x 4 configs x 3 SM variants x 4 base points x all THDM functions; every field / array element of gm2calc_SM, gm2calc_THDM_mass_basis and gm2calc_THDM_gauge_basis x 18 special values (zeros, denormal, tiny, huge, non-finite, negative) and zero-initialised structs, each followed by construction and all THDM functions"},
            "random_histories": rnd["executed"],
            "histories_repeated_with_immediate_address_reuse": reuse["executed"],
            "ops_executed_on_other_client_threads": counters.get("ops_on_client_threads", 0), "calls": counters.get("calls", 0), "ops": counters.get("ops", 0),
            "simulated_time": {"unit": "C-API calls (logical clock of this engine)", "total": counters.get("calls", 0)},
            "runs_per_hour": int(nruns / max(wall - t_build, 1e-9) * 3600),
            "modes": {k[5:]: v for k, v in counters.items() if k.startswith("mode_")},
            "functions_declared": len(funcs), "functions_with_unknown_signature": unswept, "functions_never_reached": never,
            "skipped_ops_no_handle": counters.get("skipped_no_handle", 0),
            "fault_kinds": {
                "call on fresh (uninitialised) handle": sum(v for k, v in triples.items() if k.split("|")[1] == "fresh"),
                "call after refused calculation/conversion": sum(v for k, v in triples.items() if k.split("|")[1] == "refused"),
                "call where the C++ counterpart throws": sum(v for k, v in triples.items() if "cpp_throws" in k.split("|")[2]),
                "non-finite value set": sum(v for k, v in triples.items() if k.split("|")[2] in ("set_nan", "set_inf")),
                "zero-length string buffer": sum(v for k, v in triples.items() if k.split("|")[2].startswith("len0")),
                "truncating string buffer": sum(v for k, v in triples.items() if k.split("|")[2].endswith("_truncated")),
                "out-of-range Yukawa enum": sum(v for k, v in triples.items() if "out_of_range" in k.split("|")[1]),
                "null pointer argument": sum(v for k, v in triples.items() if "null" in k.split("|")[1] or k.split("|")[2] in ("null", "nullbuf")),
                "free(NULL)": sum(v for k, v in triples.items() if k.split("|")[0].endswith("_free") and (k.split("|")[1] in ("null", "none") or k.split("|")[2] == "null")),
            },
            "determinism_gate": {"runs_compared": compared, "hash_mismatches": len(mism)},
            "uninitialised_memory_twins": dict(twin, what="sweep plans and a sample of the random histories executed in two builds whose uninitialised stack (-ftrivial-auto-var-init=pattern|zero) and fresh heap (ASan malloc_fill_byte) contents differ; event-log hashes (every call result) compared", wall_s=round(t_twin, 1)),
            "worker_deaths": sw["deaths"] + rnd["deaths"],
            "real_vs_stub": {"real": ["all of libgm2calc incl. every extern \"C\" wrapper (ASan+UBSan build of the working tree)", "libstdc++", "malloc (ASan)"],
                             "simulated": ["the C client(s): call order, arguments, buffers, handle lifetime", "std::cerr sink (captured)", "operator new/delete (counting shim)"],
                             "reference_model": "one C++ object (gm2calc::MSSMNoFV_onshell / gm2calc::THDM) per C handle, driven through the C++ API"},
            "known_findings_seen": known_hits,
            "timing_s": {"build": round(t_build, 1), "sweep": round(t_sweep, 1), "random": round(t_rand, 1)},
        },
        "assumptions": ["the C++ API is the specification of the C API (mirror)", "out-of-range indices are a documented precondition and not generated",
                        "UBSan's enum check on the load of gm2calc_THDM_yukawa_type is not treated as a C17 violation (DESIGN.md 4.2)"],
    }
    orch.write_evidence(PROP, ev)

    print("C17 apisim: %d sweep plans + %d random histories, %d calls, %d distinct (function,state,outcome) triples, %.0f s" %
          (sw["executed"], rnd["executed"], counters.get("calls", 0), len(triples), wall))
    for n in sw["notes"] + rnd["notes"]:
        print(n)
    if never:
        print("note: functions never reached: %s" % " ".join(never))
    for k in known_hits:
        print("KNOWN-FINDING: property=%s %s" % (PROP, k["what"]))
    for v in viol:
        print("VIOLATION property=%s replay=%s   (%s; %d ops, minimised from %d; %d occurrence(s))" % (PROP, v["path"], v["sig"], v["ops"], v["from_ops"], v["count"]))
    if harness_errors:
        for h in harness_errors:
            print("HARNESS-ERROR property=%s %s" % (PROP, h))
        return 2
    return 1 if viol else 0
