// Reference model ("mirror") for apisim: for every C entry point the C++
// expression that the C function is documented to mirror.  The C++ API is the
// specification of the C API.  Hand written; checked at start-up against the
// table generated from the headers (gen_table.py).
#ifndef APISIM_MIRROR_HPP
#define APISIM_MIRROR_HPP

#include "gm2calc/MSSMNoFV_onshell.hpp"
#include "gm2calc/THDM.hpp"
#include "gm2calc/SM.hpp"
#include "gm2calc/gm2_1loop.hpp"
#include "gm2calc/gm2_2loop.hpp"
#include "gm2calc/gm2_uncertainty.hpp"
#include "gm2calc/gm2_error.hpp"
#include "gm2_uncertainty_helpers.hpp"

#include <complex>
#include <functional>
#include <string>
#include <vector>

namespace apisim {

using MM = gm2calc::MSSMNoFV_onshell;
using TM = gm2calc::THDM;

enum Kind { K_GETTER, K_SETTER, K_FN };

/// mirror of one MSSM entry point of class double/void f(model [,i [,k]] [,v] [,imag*])
struct MEntry {
   std::string name;  ///< C name without the gm2calc_mssmnofv_ prefix
   Kind kind;
   int d1, d2;        ///< index dimensions (0 = no such index)
   std::function<double(MM&, unsigned, unsigned, double, double*)> f;
   std::string pair_getter; ///< for setters: C getter reading the value back ("" = none)
   bool literal;            ///< getter must return exactly the value set
};

#define M_G0(n, e)            {n, K_GETTER, 0, 0, [](MM& m, unsigned, unsigned, double, double*) -> double { return e; }, "", false}
#define M_G1(n, a, e)         {n, K_GETTER, a, 0, [](MM& m, unsigned i, unsigned, double, double*) -> double { return e; }, "", false}
#define M_G2(n, a, b, e)      {n, K_GETTER, a, b, [](MM& m, unsigned i, unsigned k, double, double*) -> double { return e; }, "", false}
#define M_GC(n, a, b, e)      {n, K_GETTER, a, b, [](MM& m, unsigned i, unsigned k, double, double* im) -> double { const std::complex<double> z = e; if (im) *im = std::imag(z); return std::real(z); }, "", false}
#define M_S0(n, e, g, lit)        {n, K_SETTER, 0, 0, [](MM& m, unsigned, unsigned, double v, double*) -> double { e; return 0; }, g, lit}
#define M_S1(n, a, e, g, lit)     {n, K_SETTER, a, 0, [](MM& m, unsigned i, unsigned, double v, double*) -> double { e; return 0; }, g, lit}
#define M_S2(n, a, b, e, g, lit)  {n, K_SETTER, a, b, [](MM& m, unsigned i, unsigned k, double v, double*) -> double { e; return 0; }, g, lit}
#define M_F0(n, e)            {n, K_FN, 0, 0, [](MM& m, unsigned, unsigned, double, double*) -> double { return e; }, "", false}
#define M_FD(n, e)            {n, K_FN, 0, 0, [](MM& m, unsigned, unsigned, double v, double*) -> double { return e; }, "", false}

inline const std::vector<MEntry>& mssm_entries()
{
   static const std::vector<MEntry> t = {
      // setters
      M_S0("set_alpha_MZ", m.set_alpha_MZ(v), "get_EL", false),
      M_S0("set_alpha_thompson", m.set_alpha_thompson(v), "get_EL0", false),
      M_S2("set_Ae", 3, 3, m.set_Ae(i, k, v), "get_Ae", true),
      M_S2("set_Au", 3, 3, m.set_Au(i, k, v), "get_Au", true),
      M_S2("set_Ad", 3, 3, m.set_Ad(i, k, v), "get_Ad", true),
      M_S0("set_g3", m.set_g3(v), "get_g3", true),
      M_S0("set_MassB", m.set_MassB(v), "get_MassB", true),
      M_S0("set_MassWB", m.set_MassWB(v), "get_MassWB", true),
      M_S0("set_MassG", m.set_MassG(v), "get_MassG", true),
      M_S2("set_mq2", 3, 3, m.set_mq2(i, k, v), "get_mq2", true),
      M_S2("set_mu2", 3, 3, m.set_mu2(i, k, v), "get_mu2", true),
      M_S2("set_md2", 3, 3, m.set_md2(i, k, v), "get_md2", true),
      M_S2("set_ml2", 3, 3, m.set_ml2(i, k, v), "get_ml2", true),
      M_S2("set_me2", 3, 3, m.set_me2(i, k, v), "get_me2", true),
      M_S0("set_Mu", m.set_Mu(v), "get_Mu", true),
      M_S0("set_TB", m.set_TB(v), "get_TB", false),
      M_S0("set_scale", m.set_scale(v), "get_scale", true),
      M_S0("set_MAh_pole", m.set_MA0(v), "", false),
      M_S0("set_MZ_pole", m.get_physical().MVZ = v, "get_MZ", true),
      M_S0("set_MW_pole", m.get_physical().MVWm = v, "get_MW", true),
      M_S0("set_MT_pole", m.get_physical().MFt = v, "get_MT", true),
      M_S0("set_MB_running", m.get_physical().MFb = v, "get_MBMB", true),
      M_S0("set_ML_pole", m.get_physical().MFtau = v, "get_ML", true),
      M_S0("set_MM_pole", m.get_physical().MFm = v, "get_MM", true),
      M_S1("set_MSm_pole", 2, m.get_physical().MSm(i) = v, "", false),
      M_S0("set_MSvmL_pole", m.get_physical().MSvmL = v, "", false),
      M_S1("set_MCha_pole", 2, m.get_physical().MCha(i) = v, "", false),
      M_S1("set_MChi_pole", 4, m.get_physical().MChi(i) = v, "", false),
      // getters
      M_G2("get_Ae", 3, 3, m.get_Ae(i, k)),
      M_G2("get_Ad", 3, 3, m.get_Ad(i, k)),
      M_G2("get_Au", 3, 3, m.get_Au(i, k)),
      M_G0("get_EL", m.get_EL()),
      M_G0("get_EL0", m.get_EL0()),
      M_G0("get_gY", m.get_gY()),
      M_G0("get_g1", m.get_g1()),
      M_G0("get_g2", m.get_g2()),
      M_G0("get_g3", m.get_g3()),
      M_G0("get_TB", m.get_TB()),
      M_G0("get_MassB", m.get_MassB()),
      M_G0("get_MassWB", m.get_MassWB()),
      M_G0("get_MassG", m.get_MassG()),
      M_G0("get_Mu", m.get_Mu()),
      M_G2("get_mq2", 3, 3, m.get_mq2(i, k)),
      M_G2("get_md2", 3, 3, m.get_md2(i, k)),
      M_G2("get_mu2", 3, 3, m.get_mu2(i, k)),
      M_G2("get_ml2", 3, 3, m.get_ml2(i, k)),
      M_G2("get_me2", 3, 3, m.get_me2(i, k)),
      M_G0("get_vev", m.get_vev()),
      M_G0("get_scale", m.get_scale()),
      M_G0("get_MW", m.get_MW()),
      M_G0("get_MZ", m.get_MZ()),
      M_G0("get_ME", m.get_ME()),
      M_G0("get_MM", m.get_MM()),
      M_G0("get_ML", m.get_ML()),
      M_G0("get_MU", m.get_MU()),
      M_G0("get_MC", m.get_MC()),
      M_G0("get_MT", m.get_MT()),
      M_G0("get_MD", m.get_MD()),
      M_G0("get_MS", m.get_MS()),
      M_G0("get_MB", m.get_MB()),
      M_G0("get_MBMB", m.get_MBMB()),
      M_G0("get_MAh", m.get_MAh(1)),
      M_G1("get_Mhh", 2, m.get_Mhh(i)),
      M_G1("get_MCha", 2, m.get_MCha(i)),
      M_GC("get_UM", 2, 2, m.get_UM(i, k)),
      M_GC("get_UP", 2, 2, m.get_UP(i, k)),
      M_G1("get_MChi", 4, m.get_MChi(i)),
      M_GC("get_ZN", 4, 4, m.get_ZN(i, k)),
      M_G1("get_MSe", 2, m.get_MSe(i)),
      M_G0("get_MSveL", m.get_MSveL()),
      M_G1("get_MSm", 2, m.get_MSm(i)),
      M_G0("get_MSvmL", m.get_MSvmL()),
      M_G1("get_MStau", 2, m.get_MStau(i)),
      M_G0("get_MSvtL", m.get_MSvtL()),
      M_G1("get_MSu", 2, m.get_MSu(i)),
      M_G1("get_MSd", 2, m.get_MSd(i)),
      M_G1("get_MSc", 2, m.get_MSc(i)),
      M_G1("get_MSs", 2, m.get_MSs(i)),
      M_G1("get_MSt", 2, m.get_MSt(i)),
      M_G1("get_MSb", 2, m.get_MSb(i)),
      M_G2("get_USe", 2, 2, m.get_USe()(i, k)),
      M_G2("get_USm", 2, 2, m.get_USm()(i, k)),
      M_G2("get_UStau", 2, 2, m.get_UStau()(i, k)),
      M_G2("get_USu", 2, 2, m.get_USu()(i, k)),
      M_G2("get_USd", 2, 2, m.get_USd()(i, k)),
      M_G2("get_USc", 2, 2, m.get_USc()(i, k)),
      M_G2("get_USs", 2, 2, m.get_USs()(i, k)),
      M_G2("get_USt", 2, 2, m.get_USt()(i, k)),
      M_G2("get_USb", 2, 2, m.get_USb()(i, k)),
      M_G2("get_Ye", 3, 3, m.get_Ye(i, k)),
      M_G2("get_Yd", 3, 3, m.get_Yd(i, k)),
      M_G2("get_Yu", 3, 3, m.get_Yu(i, k)),
      // calculations
      M_F0("calculate_amu_1loop", gm2calc::calculate_amu_1loop(m)),
      M_F0("calculate_amu_1loop_non_tan_beta_resummed", gm2calc::calculate_amu_1loop_non_tan_beta_resummed(m)),
      M_F0("amu1LChi0", gm2calc::amu1LChi0(m)),
      M_F0("amu1LChipm", gm2calc::amu1LChipm(m)),
      M_F0("calculate_amu_2loop", gm2calc::calculate_amu_2loop(m)),
      M_F0("calculate_amu_2loop_non_tan_beta_resummed", gm2calc::calculate_amu_2loop_non_tan_beta_resummed(m)),
      M_F0("amu2LFSfapprox", gm2calc::amu2LFSfapprox(m)),
      M_F0("amu2LFSfapprox_non_tan_beta_resummed", gm2calc::amu2LFSfapprox_non_tan_beta_resummed(m)),
      M_F0("amu2LChipmPhotonic", gm2calc::amu2LChipmPhotonic(m)),
      M_F0("amu2LChi0Photonic", gm2calc::amu2LChi0Photonic(m)),
      M_F0("amu2LaSferm", gm2calc::amu2LaSferm(m)),
      M_F0("amu2LaCha", gm2calc::amu2LaCha(m)),
      M_F0("calculate_uncertainty_amu_0loop", gm2calc::calculate_uncertainty_amu_0loop(m)),
      M_F0("calculate_uncertainty_amu_1loop", gm2calc::calculate_uncertainty_amu_1loop(m)),
      M_F0("calculate_uncertainty_amu_2loop", gm2calc::calculate_uncertainty_amu_2loop(m)),
      M_FD("calculate_uncertainty_amu_0loop_amu1L", gm2calc::calculate_uncertainty_amu_0loop(m, v)),
      M_FD("calculate_uncertainty_amu_1loop_amu2L", gm2calc::calculate_uncertainty_amu_1loop(m, v)),
   };
   return t;
}

/// mirror of one THDM entry point double f(const THDM*, [a1, a2])
struct TEntry {
   std::string name; ///< C name without the gm2calc_thdm_ prefix
   std::function<double(const TM&, double, double)> f;
};

#define T_F(n, e) {n, [](const TM& m, double a1, double a2) -> double { (void)a1; (void)a2; return e; }}

inline const std::vector<TEntry>& thdm_entries()
{
   static const std::vector<TEntry> t = {
      T_F("calculate_amu_1loop", gm2calc::calculate_amu_1loop(m)),
      T_F("calculate_amu_2loop", gm2calc::calculate_amu_2loop(m)),
      T_F("calculate_amu_2loop_fermionic", gm2calc::calculate_amu_2loop_fermionic(m)),
      T_F("calculate_amu_2loop_bosonic", gm2calc::calculate_amu_2loop_bosonic(m)),
      T_F("calculate_uncertainty_amu_0loop", gm2calc::calculate_uncertainty_amu_0loop(m)),
      T_F("calculate_uncertainty_amu_1loop", gm2calc::calculate_uncertainty_amu_1loop(m)),
      T_F("calculate_uncertainty_amu_2loop", gm2calc::calculate_uncertainty_amu_2loop(m)),
      T_F("calculate_uncertainty_amu_0loop_amu1L_amu2L", gm2calc::calculate_uncertainty_amu_0loop(m, a1, a2)),
      T_F("calculate_uncertainty_amu_1loop_amu1L_amu2L", gm2calc::calculate_uncertainty_amu_1loop(m, a1, a2)),
      T_F("calculate_uncertainty_amu_2loop_amu1L_amu2L", gm2calc::calculate_uncertainty_amu_2loop(m, a1, a2)),
   };
   return t;
}

/// name of the class of the exception currently being handled (call inside catch(...))
inline std::string current_exception_class()
{
   try { throw; }
   catch (const gm2calc::EInvalidInput&) { return "EInvalidInput"; }
   catch (const gm2calc::EPhysicalProblem&) { return "EPhysicalProblem"; }
   catch (const gm2calc::ESetupError&) { return "ESetupError"; }
   catch (const gm2calc::EReadError&) { return "EReadError"; }
   catch (const gm2calc::Error&) { return "Error"; }
   catch (const std::bad_alloc&) { return "std::bad_alloc"; }
   catch (const std::exception&) { return "std::exception"; }
   catch (...) { return "unknown"; }
}

} // namespace apisim

#endif
