#!/usr/bin/env python3
"""Generate the table of C entry points from the headers in the working tree.

Every function declared inside an `extern "C"` region of include/gm2calc/*.h and
src/gm2_uncertainty_helpers.h is emitted with a signature class derived from
its (normalised) parameter types, so that a function added or re-typed later
is swept automatically.  Output: C++ initialiser list on stdout.
"""
import glob
import os
import re
import sys

REPO = os.environ.get("VERIF_REPO", "/repo")

HEADERS = sorted(glob.glob(os.path.join(REPO, "include/gm2calc/*.h"))) + \
    [os.path.join(REPO, "src/gm2_uncertainty_helpers.h")]

TYPE_CODES = [
    (r"^const MSSMNoFV_onshell\*$", "cM"),
    (r"^MSSMNoFV_onshell\*$", "M"),
    (r"^const gm2calc_THDM\*$", "cT"),
    (r"^gm2calc_THDM\*$", "T"),
    (r"^gm2calc_THDM\*\*$", "TT"),
    (r"^const gm2calc_THDM_gauge_basis\*$", "cGB"),
    (r"^const gm2calc_THDM_mass_basis\*$", "cMB"),
    (r"^const (::)?gm2calc_SM\*$", "cSM"),
    (r"^gm2calc_SM\*$", "SM"),
    (r"^const gm2calc_THDM_config\*$", "cCFG"),
    (r"^gm2calc_THDM_config\*$", "CFG"),
    (r"^double$", "d"),
    (r"^double\*$", "dp"),
    (r"^unsigned( int)?$", "u"),
    (r"^int$", "i"),
    (r"^char\*$", "s"),
    (r"^void$", ""),
    (r"^gm2calc_error$", "E"),
    (r"^gm2calc_THDM_yukawa_type$", "Y"),
    (r"^const char\*$", "cs"),
]


def code(t):
    t = re.sub(r"\s+", " ", t.strip())
    t = re.sub(r"\s*\*", "*", t)
    t = re.sub(r"^struct ", "", t)
    for pat, c in TYPE_CODES:
        if re.match(pat, t):
            return c
    return "?" + t


def strip_name(param):
    p = re.sub(r"/\*.*?\*/", "", param).strip()
    # drop a trailing identifier if what precedes it is still a type
    m = re.match(r"^(.*[\*\s])([A-Za-z_][A-Za-z0-9_]*)$", p)
    if m and m.group(1).strip() and m.group(2) not in ("int", "double", "unsigned", "void", "char"):
        return m.group(1).strip()
    return p


def main():
    funcs = {}
    for h in HEADERS:
        try:
            txt = open(h).read()
        except OSError:
            continue
        txt = re.sub(r"/\*.*?\*/", lambda m: " " if "\n" not in m.group(0) else "\n", txt, flags=re.S)
        txt = re.sub(r"//[^\n]*", "", txt)
        txt = re.sub(r"^\s*#.*$", "", txt, flags=re.M)
        txt = re.sub(r'extern\s+"C"\s*\{', "", txt)
        # remove struct/enum bodies
        txt = re.sub(r"\{[^{}]*\}", "{}", txt)
        for m in re.finditer(r"([A-Za-z_][A-Za-z0-9_\s\*]*?)\b([A-Za-z_][A-Za-z0-9_]*)\s*\(([^()]*)\)\s*;", txt):
            ret, name, params = m.group(1).strip(), m.group(2), m.group(3)
            if not ret or ret.startswith("typedef") or "extern" in ret:
                ret = ret.replace('extern "C"', "").strip()
                if not ret or ret.startswith("typedef"):
                    continue
            plist = [strip_name(p) for p in params.split(",")] if params.strip() else []
            sig = code(ret) + "_" + "_".join(code(p) for p in plist if code(p) != "")
            funcs[name] = (sig.rstrip("_"), os.path.basename(h))
    for name in sorted(funcs):
        sig, hdr = funcs[name]
        known = "?" not in sig
        print('{"%s", "%s", "%s", %s},' % (name, sig, hdr, ("(void*)&" + name) if known else "nullptr"))


if __name__ == "__main__":
    main()
