// apisim executor: interprets a plan (list of text op lines) against the real
// C API and, in lock step, against the C++ mirror objects; evaluates the C17
// oracles after every call.
#ifndef APISIM_EXEC_HPP
#define APISIM_EXEC_HPP

#include "../common/sim.hpp"
#include "mirror.hpp"

#include "gm2calc/MSSMNoFV_onshell.h"
#include "gm2calc/THDM.h"
#include "gm2calc/SM.h"
#include "gm2calc/gm2_1loop.h"
#include "gm2calc/gm2_2loop.h"
#include "gm2calc/gm2_uncertainty.h"
#include "gm2calc/gm2_error.h"
#include "gm2_uncertainty_helpers.h"

#include <functional>
#include <pthread.h>
#include <semaphore.h>
#include <climits>
#include <iostream>
#include <memory>
#include <sstream>

namespace apisim {

struct CFunc { const char* name; const char* sig; const char* hdr; void* p; };
static const CFunc cfuncs[] = {
#include "apisim_gen.inc"
};
static const size_t n_cfuncs = sizeof(cfuncs) / sizeof(cfuncs[0]);

inline const CFunc* find_cfunc(const std::string& name)
{
   for (size_t i = 0; i < n_cfuncs; ++i) if (name == cfuncs[i].name) return &cfuncs[i];
   return nullptr;
}
inline const MEntry* find_mentry(const std::string& cname)
{
   static const std::string pre = "gm2calc_mssmnofv_";
   if (cname.compare(0, pre.size(), pre) != 0) return nullptr;
   const std::string s = cname.substr(pre.size());
   for (auto& e : mssm_entries()) if (e.name == s) return &e;
   return nullptr;
}
inline const TEntry* find_tentry(const std::string& cname)
{
   static const std::string pre = "gm2calc_thdm_";
   if (cname.compare(0, pre.size(), pre) != 0) return nullptr;
   const std::string s = cname.substr(pre.size());
   for (auto& e : thdm_entries()) if (e.name == s) return &e;
   return nullptr;
}

// live allocation counter (operator new/delete are replaced in apisim.cpp)
extern long g_live_allocs;

constexpr int NM = 3;  // MSSM handle slots
constexpr int NT = 3;  // THDM handle slots
constexpr int NW = 2;  // THDM input workspaces

enum AState { A_NONE, A_FRESH, A_SET, A_MASSES, A_ONSHELL, A_REFUSED, A_DIRTY };
inline const char* astate_name(int s)
{
   static const char* n[] = {"none", "fresh", "set", "masses", "onshell", "refused", "dirty"};
   return n[s];
}

struct Workspace {
   gm2calc_THDM_mass_basis mb;
   gm2calc_THDM_gauge_basis gb;
   gm2calc_SM sm;
   gm2calc_THDM_config cfg;
};

struct Violation { std::string sig; std::string detail; size_t op; };

struct World {
   MSSMNoFV_onshell* mh[NM] = {};
   std::unique_ptr<MM> mm[NM];
   int mstate[NM] = {};
   gm2calc_THDM* th[NT] = {};
   std::unique_ptr<TM> tm[NT];
   std::string tstate[NT];
   Workspace ws[NW];
};

struct Exec {
   World w;
   sim::Fnv log;                 ///< event log hash
   std::vector<Violation> viol;
   sim::Stats* stats = nullptr;  ///< optional coverage counters
   sim::Progress* prog = nullptr;
   uint64_t run_index = 0;
   size_t op_index = 0;
   uint64_t calls = 0;
   std::ostringstream cerr_c, cerr_m; ///< captured diagnostics of C side / mirror side
   std::vector<std::string> trace;    ///< human readable per-call outcome (only if want_trace)
   bool want_trace = false;

   // ---------------------------------------------------------------- helpers
   void violation(const std::string& sig, const std::string& detail)
   {
      viol.push_back({sig, detail, op_index});
   }
   void cover(const std::string& fn, const std::string& st, const std::string& outcome)
   {
      if (stats) stats->add("t|" + fn + "|" + st + "|" + outcome);
   }
   static std::string vclass(double v)
   {
      if (std::isnan(v)) return "nan";
      if (std::isinf(v)) return "inf";
      if (v == 0) return "zero";
      return "finite";
   }
   void note(const std::string& s) { if (want_trace) trace.push_back(s); }
   void label(const std::string& fn)
   {
      ++calls;
      if (prog) prog->set(run_index, op_index, fn.c_str());
   }

   struct CerrCapture {
      std::streambuf* old;
      CerrCapture(std::ostringstream& os) { os.str(""); os.clear(); old = std::cerr.rdbuf(os.rdbuf()); }
      ~CerrCapture() { std::cerr.rdbuf(old); }
   };

   static void default_workspace(Workspace& s, int base)
   {
      std::memset(&s, 0, sizeof s);
      s.mb.yukawa_type = gm2calc_THDM_type_2;
      s.mb.mh = 125; s.mb.mH = 400; s.mb.mA = 420; s.mb.mHp = 440;
      s.mb.sin_beta_minus_alpha = 0.999;
      s.mb.tan_beta = 3; s.mb.m122 = 40000;
      s.gb.yukawa_type = gm2calc_THDM_type_2;
      const double lam[7] = {0.7, 0.6, 0.5, 0.4, 0.3, 0.2, 0.1};
      for (int i = 0; i < 7; ++i) s.gb.lambda[i] = lam[i];
      s.gb.tan_beta = 3; s.gb.m122 = 40000;
      if (base >= 1) { // the point of the C interface test: alignment parameters and matrices set
         s.mb.zeta_u = s.gb.zeta_u = 0.1; s.mb.zeta_d = s.gb.zeta_d = 0.2; s.mb.zeta_l = s.gb.zeta_l = 0.3;
         for (int i = 0; i < 3; ++i) for (int k = 0; k < 3; ++k) {
            const double d = 0.1 * (3 * i + k + 1) * (base >= 2 ? 0.01 : 1.0);
            s.mb.Delta_u[i][k] = s.gb.Delta_u[i][k] = d;
            s.mb.Delta_d[i][k] = s.gb.Delta_d[i][k] = 2 * d;
            s.mb.Delta_l[i][k] = s.gb.Delta_l[i][k] = 3 * d;
            s.mb.Pi_u[i][k] = s.gb.Pi_u[i][k] = 4 * d;
            s.mb.Pi_d[i][k] = s.gb.Pi_d[i][k] = 8 * d;
            s.mb.Pi_l[i][k] = s.gb.Pi_l[i][k] = 12 * d;
         }
      }
      if (base == 3) { s.mb.mh = 125; s.mb.mH = 125; s.mb.mA = 10; s.mb.mHp = 100; s.mb.m122 = -1e5; }
      gm2calc_sm_set_to_default(&s.sm);
      s.sm.alpha_em_mz = 1.0 / 128.94579;
      s.sm.mu[2] = 173.34; s.sm.mu[1] = 1.28; s.sm.md[2] = 4.18; s.sm.ml[2] = 1.77684;
      gm2calc_thdm_config_set_to_default(&s.cfg);
   }

   void reset()
   {
      for (int i = 0; i < NM; ++i) if (w.mh[i]) { gm2calc_mssmnofv_free(w.mh[i]); w.mh[i] = nullptr; w.mm[i].reset(); w.mstate[i] = A_NONE; }
      for (int i = 0; i < NT; ++i) if (w.th[i]) { gm2calc_thdm_free(w.th[i]); w.th[i] = nullptr; w.tm[i].reset(); w.tstate[i].clear(); }
   }

   // independent C -> C++ conversions (the specification of THDM_c.cpp's converters)
   static gm2calc::SM to_cpp(const gm2calc_SM& c)
   {
      gm2calc::SM s;
      s.set_alpha_em_0(c.alpha_em_0); s.set_alpha_em_mz(c.alpha_em_mz); s.set_alpha_s_mz(c.alpha_s_mz);
      s.set_mh(c.mh); s.set_mw(c.mw); s.set_mz(c.mz);
      for (int i = 0; i < 3; ++i) { s.set_mu(i, c.mu[i]); s.set_md(i, c.md[i]); s.set_mv(i, c.mv[i]); s.set_ml(i, c.ml[i]); }
      for (int i = 0; i < 3; ++i) for (int k = 0; k < 3; ++k) s.set_ckm(i, k, std::complex<double>(c.ckm_real[i][k], c.ckm_imag[i][k]));
      return s;
   }
   static gm2calc::thdm::Config to_cpp(const gm2calc_THDM_config& c)
   {
      gm2calc::thdm::Config r; r.force_output = c.force_output != 0; r.running_couplings = c.running_couplings != 0; return r;
   }
   template <class B, class C> static void copy_common(B& b, const C& c)
   {
      { int y; std::memcpy(&y, &c.yukawa_type, sizeof y); b.yukawa_type = static_cast<gm2calc::thdm::Yukawa_type>(y); }
      b.tan_beta = c.tan_beta; b.m122 = c.m122; b.zeta_u = c.zeta_u; b.zeta_d = c.zeta_d; b.zeta_l = c.zeta_l;
      for (int i = 0; i < 3; ++i) for (int k = 0; k < 3; ++k) {
         b.Delta_u(i, k) = c.Delta_u[i][k]; b.Delta_d(i, k) = c.Delta_d[i][k]; b.Delta_l(i, k) = c.Delta_l[i][k];
         b.Pi_u(i, k) = c.Pi_u[i][k]; b.Pi_d(i, k) = c.Pi_d[i][k]; b.Pi_l(i, k) = c.Pi_l[i][k];
      }
   }
   static gm2calc::thdm::Mass_basis to_cpp(const gm2calc_THDM_mass_basis& c)
   {
      gm2calc::thdm::Mass_basis b; copy_common(b, c);
      b.mh = c.mh; b.mH = c.mH; b.mA = c.mA; b.mHp = c.mHp; b.sin_beta_minus_alpha = c.sin_beta_minus_alpha;
      b.lambda_6 = c.lambda_6; b.lambda_7 = c.lambda_7;
      return b;
   }
   static gm2calc::thdm::Gauge_basis to_cpp(const gm2calc_THDM_gauge_basis& c)
   {
      gm2calc::thdm::Gauge_basis b; copy_common(b, c);
      for (int i = 0; i < 7; ++i) b.lambda(i) = c.lambda[i];
      return b;
   }
   static int err_of(const std::string& cls)
   {
      if (cls.empty()) return gm2calc_NoError;
      if (cls == "EInvalidInput") return gm2calc_InvalidInput;
      if (cls == "EPhysicalProblem") return gm2calc_PhysicalProblem;
      return gm2calc_UnknownError;
   }

   // ------------------------------------------------------------- MSSM calls
   struct Out { bool escaped = false; std::string exc; double val = 0; double imag = 0; int ival = 0; bool has_imag = false; };

   /// call C function of a generic MSSM signature class; never lets an exception out
   Out call_c_mssm(const CFunc& f, MSSMNoFV_onshell* h, unsigned i, unsigned k, double v, long x)
   {
      Out o;
      const std::string sig = f.sig;
      CerrCapture cap(cerr_c);
      try {
         if (sig == "d_cM") o.val = ((double (*)(const MSSMNoFV_onshell*))f.p)(h);
         else if (sig == "d_cM_u") o.val = ((double (*)(const MSSMNoFV_onshell*, unsigned))f.p)(h, i);
         else if (sig == "d_cM_u_u") o.val = ((double (*)(const MSSMNoFV_onshell*, unsigned, unsigned))f.p)(h, i, k);
         else if (sig == "d_cM_u_u_dp") { o.imag = -77.25; o.has_imag = (x != 0); o.val = ((double (*)(const MSSMNoFV_onshell*, unsigned, unsigned, double*))f.p)(h, i, k, x ? &o.imag : nullptr); }
         else if (sig == "d_cM_d") o.val = ((double (*)(const MSSMNoFV_onshell*, double))f.p)(h, v);
         else if (sig == "_M_d") ((void (*)(MSSMNoFV_onshell*, double))f.p)(h, v);
         else if (sig == "_M_u_d") ((void (*)(MSSMNoFV_onshell*, unsigned, double))f.p)(h, i, v);
         else if (sig == "_M_u_u_d") ((void (*)(MSSMNoFV_onshell*, unsigned, unsigned, double))f.p)(h, i, k, v);
         else if (sig == "_M_i") ((void (*)(MSSMNoFV_onshell*, int))f.p)(h, (int)x);
         else if (sig == "E_M") o.ival = (int)((gm2calc_error (*)(MSSMNoFV_onshell*))f.p)(h);
         else if (sig == "E_M_d_u") o.ival = (int)((gm2calc_error (*)(MSSMNoFV_onshell*, double, unsigned))f.p)(h, v, (unsigned)x);
         else if (sig == "i_M") o.ival = ((int (*)(MSSMNoFV_onshell*))f.p)(h);
         else if (sig == "_cM") ((void (*)(const MSSMNoFV_onshell*))f.p)(h);
      } catch (...) {
         o.escaped = true;
         o.exc = current_exception_class();
      }
      return o;
   }

   void full_state_compare(int s, const char* when)
   {
      MSSMNoFV_onshell* h = w.mh[s];
      MM& m = *w.mm[s];
      // problem/warning flags and texts
      for (const char* fn : {"gm2calc_mssmnofv_have_problem", "gm2calc_mssmnofv_have_warning"}) {
         const CFunc* f = find_cfunc(fn);
         if (!f || !f->p) continue;
         label(fn);
         Out c = call_c_mssm(*f, h, 0, 0, 0, 0);
         if (c.escaped) { violation("escape:" + std::string(fn) + ":" + c.exc, std::string("during state comparison ") + when); return; }
         const bool mb = std::string(fn).find("problem") != std::string::npos ? m.get_problems().have_problem() : m.get_problems().have_warning();
         if ((c.ival != 0) != mb) { violation("state:" + std::string(fn), std::string(when) + ": C=" + std::to_string(c.ival) + " C++=" + std::to_string(mb)); return; }
      }
      for (const char* fn : {"gm2calc_mssmnofv_get_problems", "gm2calc_mssmnofv_get_warnings"}) {
         const CFunc* f = find_cfunc(fn);
         if (!f || !f->p || std::string(f->sig) != "_M_s_u") continue;
         label(fn);
         char big[2048]; std::memset(big, 0x5A, sizeof big);
         try { ((void (*)(MSSMNoFV_onshell*, char*, unsigned))f->p)(h, big, (unsigned)sizeof big); }
         catch (...) { violation("escape:" + std::string(fn) + ":" + current_exception_class(), std::string("during state comparison ") + when); return; }
         big[sizeof big - 1] = 0;
         const std::string want = std::string(fn).find("problems") != std::string::npos ? m.get_problems().get_problems() : m.get_problems().get_warnings();
         if (std::string(big) != want.substr(0, sizeof big - 1)) { violation("state:" + std::string(fn), std::string(when) + ": C='" + std::string(big).substr(0, 80) + "' C++='" + want.substr(0, 80) + "'"); return; }
      }
      for (auto& e : mssm_entries()) {
         if (e.kind != K_GETTER) continue;
         const CFunc* f = find_cfunc("gm2calc_mssmnofv_" + e.name);
         if (!f || !f->p) continue;
         const int n1 = e.d1 ? e.d1 : 1, n2 = e.d2 ? e.d2 : 1;
         for (int i = 0; i < n1; ++i) for (int k = 0; k < n2; ++k) {
            label(f->name);
            Out c = call_c_mssm(*f, h, i, k, 0, 1);
            double mv = 0, mi = 0; std::string mexc;
            { CerrCapture cap(cerr_m); try { mv = e.f(m, i, k, 0, &mi); } catch (...) { mexc = current_exception_class(); } }
            if (c.escaped) { violation("escape:" + std::string(f->name) + ":" + c.exc, std::string("during state comparison ") + when); return; }
            if (mexc.empty() && (sim::bits(c.val) != sim::bits(mv) || (c.has_imag && sim::bits(c.imag) != sim::bits(mi)))) {
               violation("state:" + std::string(f->name), std::string(when) + ": C=" + sim::dstr(c.val) + " mirror=" + sim::dstr(mv) + " i=" + std::to_string(i) + " k=" + std::to_string(k));
               return;
            }
         }
      }
   }

   void op_m(const std::vector<std::string>& t)
   {
      // m S fname [I K V X]
      if (t.size() < 3) return;
      const int s = (int)(((sim::iparse(t[1]) % NM) + NM) % NM);
      const std::string fn = t[2];
      const CFunc* f = find_cfunc(fn);
      if (!f || !f->p) { if (stats) stats->add("skipped_unknown_function"); return; }
      unsigned i = t.size() > 3 ? (unsigned)sim::iparse(t[3]) : 0;
      unsigned k = t.size() > 4 ? (unsigned)sim::iparse(t[4]) : 0;
      const double v = t.size() > 5 ? sim::dparse(t[5]) : 0.0;
      const long x = t.size() > 6 ? (long)sim::iparse(t[6]) : 0;
      const std::string sig = f->sig;
      const std::string st = astate_name(w.mstate[s]);
      log.str(fn);

      if (sig == "M") { // new
         if (w.mh[s]) { note(fn + " skipped (slot live)"); return; }
         label(fn);
         try { w.mh[s] = ((MSSMNoFV_onshell* (*)())f->p)(); } catch (...) { violation("escape:" + fn + ":" + current_exception_class(), ""); return; }
         if (!w.mh[s]) { violation("null:" + fn, "returned NULL"); return; }
         w.mm[s].reset(new MM());
         w.mstate[s] = A_FRESH;
         cover(fn, st, "ok");
         return;
      }
      if (sig == "_M" ) { // free
         label(fn);
         try { ((void (*)(MSSMNoFV_onshell*))f->p)(w.mh[s]); } catch (...) { violation("escape:" + fn + ":" + current_exception_class(), ""); }
         cover(fn, st, w.mh[s] ? "live" : "null");
         w.mh[s] = nullptr; w.mm[s].reset(); w.mstate[s] = A_NONE;
         return;
      }
      if (!w.mh[s]) { note(fn + " skipped (no handle)"); if (stats) stats->add("skipped_no_handle"); return; }
      MSSMNoFV_onshell* h = w.mh[s];
      MM& m = *w.mm[s];
      const MEntry* e = find_mentry(fn);
      if (e) { if (e->d1) i %= e->d1; else i = 0; if (e->d2) k %= e->d2; else k = 0; }
      else if (sig.find("_u") != std::string::npos) { i = 0; k = 0; } // unknown function: only index 0 is known to be valid

      if (sig == "_M_s_u") { op_string(*f, s, x, (long)k); return; }

      label(fn);
      Out c = call_c_mssm(*f, h, i, k, v, x);
      if (c.escaped) { violation("escape:" + fn + ":" + c.exc, "state=" + st); cover(fn, st, "escape"); return; }
      log.dbl(c.val); log.u64((uint64_t)c.ival);

      // mirror
      double mv = 0, mi = -77.25; std::string mexc;
      if (e) {
         CerrCapture cap(cerr_m);
         try { mv = e->f(m, i, k, v, &mi); } catch (...) { mexc = current_exception_class(); }
      }
      std::string outcome;
      if (sig[0] == 'd') {
         if (e) {
            if (mexc.empty()) {
               outcome = vclass(c.val);
               if (sim::bits(c.val) != sim::bits(mv))
                  violation("mismatch:" + fn, "state=" + st + " C=" + sim::dstr(c.val) + " C++=" + sim::dstr(mv));
               else if (c.has_imag && sim::bits(c.imag) != sim::bits(mi))
                  violation("mismatch:" + fn, "imaginary part: C=" + sim::dstr(c.imag) + " C++=" + sim::dstr(mi));
            } else outcome = "cpp_throws_" + mexc;
         } else outcome = "unmirrored";
         note(fn + " -> " + sim::dstr(c.val) + (mexc.empty() ? "" : " (C++ throws " + mexc + ")"));
      } else if (sig == "_M_d" || sig == "_M_u_d" || sig == "_M_u_u_d") {
         outcome = "set_" + vclass(v);
         if (w.mstate[s] == A_FRESH) w.mstate[s] = A_SET; else if (w.mstate[s] != A_SET) w.mstate[s] = A_DIRTY;
         if (e && !e->pair_getter.empty()) {
            const std::string gname = "gm2calc_mssmnofv_" + e->pair_getter;
            const CFunc* g = find_cfunc(gname);
            const MEntry* ge = find_mentry(gname);
            if (g && g->p && ge) {
               label(gname);
               Out gc = call_c_mssm(*g, h, i, k, 0, 1);
               double gm = 0; std::string gexc;
               { CerrCapture cap(cerr_m); try { gm = ge->f(m, i, k, 0, nullptr); } catch (...) { gexc = current_exception_class(); } }
               if (gc.escaped) violation("escape:" + gname + ":" + gc.exc, "after " + fn + "(" + sim::dstr(v) + ")");
               else if (gexc.empty()) {
                  if (sim::bits(gc.val) != sim::bits(gm))
                     violation("setget:" + fn, "getter " + gname + " C=" + sim::dstr(gc.val) + " C++=" + sim::dstr(gm) + " set=" + sim::dstr(v));
                  else if (e->literal && sim::bits(gc.val) != sim::bits(v))
                     violation("setget:" + fn, "getter " + gname + " returned " + sim::dstr(gc.val) + " after setting " + sim::dstr(v));
                  log.dbl(gc.val);
               }
            }
         }
         note(fn + "(" + std::to_string(i) + "," + std::to_string(k) + "," + sim::dstr(v) + ")");
      } else if (sig == "_M_i") {
         { try { m.set_verbose_output(x != 0); } catch (...) {} }
         outcome = "ok";
      } else if (sig == "E_M" || sig == "E_M_d_u") {
         // mirror of calculate_masses / convert_to_onshell(_params)
         std::string cls; bool known = true;
         { CerrCapture cap(cerr_m);
           try {
              if (fn == "gm2calc_mssmnofv_calculate_masses") m.calculate_masses();
              else if (fn == "gm2calc_mssmnofv_convert_to_onshell") m.convert_to_onshell();
              else if (fn == "gm2calc_mssmnofv_convert_to_onshell_params") m.convert_to_onshell(v, (unsigned)x);
              else known = false;
           } catch (...) { cls = current_exception_class(); } }
         if (known) {
            if (c.ival != err_of(cls))
               violation("errcode:" + fn, "C returned " + std::to_string(c.ival) + ", C++ " + (cls.empty() ? "did not throw" : "threw " + cls));
            outcome = "err" + std::to_string(c.ival);
            if (c.ival == gm2calc_NoError) w.mstate[s] = (fn == "gm2calc_mssmnofv_calculate_masses") ? A_MASSES : A_ONSHELL;
            else w.mstate[s] = A_REFUSED;
            if (viol.empty()) full_state_compare(s, fn.c_str());
            bool warn = false, prob = false;
            try { warn = m.get_problems().have_warning(); prob = m.get_problems().have_problem(); } catch (...) {}
            if (warn) outcome += "+warning";
            if (prob) outcome += "+problem";
         } else outcome = "unmirrored";
         note(fn + " -> error " + std::to_string(c.ival));
      } else if (sig == "i_M") {
         bool mb = false; bool known = true;
         if (fn == "gm2calc_mssmnofv_have_problem") mb = m.get_problems().have_problem();
         else if (fn == "gm2calc_mssmnofv_have_warning") mb = m.get_problems().have_warning();
         else known = false;
         if (known && (c.ival != 0) != mb) violation("mismatch:" + fn, "C=" + std::to_string(c.ival) + " C++=" + std::to_string(mb));
         outcome = c.ival ? "true" : "false";
      } else if (sig == "_cM") {
         // print: goes to std::cerr; C++ counterpart is operator<< followed by '\n'
         if (fn == "print_mssmnofv") {
            std::ostringstream os; std::string pexc;
            { CerrCapture cap(cerr_m); try { os << m << '\n'; } catch (...) { pexc = current_exception_class(); } }
            if (pexc.empty()) {
               if (cerr_c.str() != os.str()) violation("mismatch:" + fn, "printed text differs from operator<< of the C++ object");
               outcome = "printed";
            } else outcome = "cpp_throws_" + pexc;
         } else outcome = "unmirrored";
      }
      cover(fn, st, outcome);
   }

   /// string getters: buffer inside a canary filled arena
   void op_string(const CFunc& f, int s, long len, long nullflag)
   {
      const std::string fn = f.name;
      const std::string st = astate_name(w.mstate[s]);
      if (len < 0) len = 0;
      if (len > 1024) len = 1024; // the property speaks of 0..64; longer buffers are used too (complete texts)
      constexpr size_t PRE = 64, ARENA = 4096;
      static unsigned char arena[ARENA];
      std::memset(arena, 0xA5, ARENA);
      char* buf = nullflag == 1 ? nullptr : (char*)arena + PRE;
      std::string expect; std::string mexc;
      { CerrCapture cap(cerr_m);
        try {
           if (fn == "gm2calc_mssmnofv_get_problems") expect = w.mm[s]->get_problems().get_problems();
           else if (fn == "gm2calc_mssmnofv_get_warnings") expect = w.mm[s]->get_problems().get_warnings();
           else mexc = "unmirrored";
        } catch (...) { mexc = current_exception_class(); } }
      label(fn);
      bool escaped = false; std::string exc;
      { CerrCapture cap(cerr_c);
        try { ((void (*)(MSSMNoFV_onshell*, char*, unsigned))f.p)(w.mh[s], buf, (unsigned)len); }
        catch (...) { escaped = true; exc = current_exception_class(); } }
      if (escaped) { violation("escape:" + fn + ":" + exc, "len=" + std::to_string(len)); return; }
      // nothing outside [buf, buf+len) may have been written
      for (size_t p = 0; p < ARENA; ++p) {
         const bool inside = buf && p >= PRE && p < PRE + (size_t)len;
         if (!inside && arena[p] != 0xA5) {
            violation("overrun:" + fn, "byte at offset " + std::to_string((long)p - (long)PRE) + " relative to a buffer of length " + std::to_string(len) + " was overwritten");
            return;
         }
      }
      std::string outcome = "len" + std::string(len == 0 ? "0" : len == 1 ? "1" : "N");
      if (buf && len > 0) {
         const void* z = std::memchr(buf, 0, (size_t)len);
         if (!z) { violation("unterminated:" + fn, "no NUL within len=" + std::to_string(len)); return; }
         if (mexc.empty()) {
            const std::string got(buf);
            const std::string want = expect.substr(0, (size_t)len - 1);
            if (got != want) violation("mismatch:" + fn, "got '" + got + "' want '" + want + "'");
            outcome += expect.empty() ? "_empty" : (expect.size() > (size_t)len - 1 ? "_truncated" : "_full");
            log.str(got);
         }
      }
      if (!buf) outcome = "nullbuf";
      cover(fn, st, outcome);
      note(fn + " len=" + std::to_string(len));
   }

   /// macro op: apply a complete base point through the C setters (and the mirror)
   void op_mfill(const std::vector<std::string>& t)
   {
      if (t.size() < 3) return;
      const std::string S = t[1];
      const int p = (int)(sim::iparse(t[2]) % 4);
      const double F = t.size() > 3 ? sim::dparse(t[3]) : 1.0;
      struct L { const char* fn; unsigned i, k; double v; };
      const double pi = 3.14159265358979323846;
      std::vector<L> l = {
         {"set_alpha_MZ", 0, 0, 0.0077552}, {"set_alpha_thompson", 0, 0, 0.00729735},
         {"set_g3", 0, 0, std::sqrt(4 * pi * 0.1184)}, {"set_MT_pole", 0, 0, 173.34},
         {"set_MB_running", 0, 0, 4.18}, {"set_MM_pole", 0, 0, 0.1056583715},
         {"set_ML_pole", 0, 0, 1.777}, {"set_MW_pole", 0, 0, 80.385}, {"set_MZ_pole", 0, 0, 91.1876}};
      if (p == 0 || p == 2) { // example-gm2calc: on-shell input for calculate_masses
         l.insert(l.end(), {{"set_TB", 0, 0, 10}, {"set_Ae", 1, 1, 0}, {"set_Mu", 0, 0, 350 * F}, {"set_MassB", 0, 0, 150 * F},
                            {"set_MassWB", 0, 0, 300 * F}, {"set_MassG", 0, 0, 1000 * F}, {"set_Au", 2, 2, 0}, {"set_Ad", 2, 2, 0},
                            {"set_Ae", 2, 2, 0}, {"set_MAh_pole", 0, 0, 1500 * F}, {"set_scale", 0, 0, 454.7 * F}});
         for (unsigned i = 0; i < 3; ++i)
            for (const char* n : {"set_mq2", "set_ml2", "set_md2", "set_mu2", "set_me2"})
               l.push_back({n, i, i, 500. * 500. * F * F});
         if (p == 2) l.push_back({"set_ml2", 1, 1, -250000. * F * F}); // tachyonic smuon
      } else { // example-slha: pole masses for convert_to_onshell
         const double G = (p == 3) ? 1.7 : 1.0; // p == 3: pole masses inconsistent with the DR-bar input
         l.insert(l.end(), {{"set_MSvmL_pole", 0, 0, 5.18860573e+02 * F}, {"set_MSm_pole", 0, 0, 5.05095249e+02 * F * G},
                            {"set_MSm_pole", 1, 0, 5.25187016e+02 * F}, {"set_MChi_pole", 0, 0, 2.01611468e+02 * F},
                            {"set_MChi_pole", 1, 0, 4.10040273e+02 * F * G}, {"set_MChi_pole", 2, 0, -5.16529941e+02 * F},
                            {"set_MChi_pole", 3, 0, 5.45628749e+02 * F}, {"set_MCha_pole", 0, 0, 4.09989890e+02 * F},
                            {"set_MCha_pole", 1, 0, 5.46057190e+02 * F * G}, {"set_MAh_pole", 0, 0, 1.5e+03 * F},
                            {"set_TB", 0, 0, 40}, {"set_Mu", 0, 0, 500 * F}, {"set_MassB", 0, 0, 200 * F}, {"set_MassWB", 0, 0, 400 * F},
                            {"set_MassG", 0, 0, 2000 * F}});
         for (unsigned i = 0; i < 3; ++i) {
            l.push_back({"set_ml2", i, i, 500. * 500. * F * F}); l.push_back({"set_me2", i, i, 500. * 500. * F * F});
            l.push_back({"set_mq2", i, i, 7000. * 7000. * F * F}); l.push_back({"set_md2", i, i, 7000. * 7000. * F * F});
            l.push_back({"set_mu2", i, i, 7000. * 7000. * F * F});
         }
         l.insert(l.end(), {{"set_Au", 2, 2, 0}, {"set_Ad", 2, 2, 0}, {"set_Ae", 1, 1, 0}, {"set_Ae", 2, 2, 0}, {"set_scale", 0, 0, 1000 * F}});
      }
      for (auto& x : l) {
         if (!viol.empty()) return;
         op_m({"m", S, std::string("gm2calc_mssmnofv_") + x.fn, std::to_string(x.i), std::to_string(x.k), sim::dstr(x.v), "0"});
      }
   }

   // ------------------------------------------------------------- THDM ops
   static double* ws_field(Workspace& s, const std::string& which, const std::string& f, unsigned i, unsigned k)
   {
      i %= 3; k %= 3;
      if (which == "mb") {
         auto& b = s.mb;
         if (f == "mh") return &b.mh; if (f == "mH") return &b.mH; if (f == "mA") return &b.mA; if (f == "mHp") return &b.mHp;
         if (f == "sin_beta_minus_alpha") return &b.sin_beta_minus_alpha; if (f == "lambda_6") return &b.lambda_6; if (f == "lambda_7") return &b.lambda_7;
         if (f == "tan_beta") return &b.tan_beta; if (f == "m122") return &b.m122; if (f == "zeta_u") return &b.zeta_u; if (f == "zeta_d") return &b.zeta_d; if (f == "zeta_l") return &b.zeta_l;
         if (f == "Delta_u") return &b.Delta_u[i][k]; if (f == "Delta_d") return &b.Delta_d[i][k]; if (f == "Delta_l") return &b.Delta_l[i][k];
         if (f == "Pi_u") return &b.Pi_u[i][k]; if (f == "Pi_d") return &b.Pi_d[i][k]; if (f == "Pi_l") return &b.Pi_l[i][k];
      } else if (which == "gb") {
         auto& b = s.gb;
         if (f == "lambda") return &b.lambda[(i * 3 + k) % 7];
         if (f == "tan_beta") return &b.tan_beta; if (f == "m122") return &b.m122; if (f == "zeta_u") return &b.zeta_u; if (f == "zeta_d") return &b.zeta_d; if (f == "zeta_l") return &b.zeta_l;
         if (f == "Delta_u") return &b.Delta_u[i][k]; if (f == "Delta_d") return &b.Delta_d[i][k]; if (f == "Delta_l") return &b.Delta_l[i][k];
         if (f == "Pi_u") return &b.Pi_u[i][k]; if (f == "Pi_d") return &b.Pi_d[i][k]; if (f == "Pi_l") return &b.Pi_l[i][k];
      } else if (which == "sm") {
         auto& b = s.sm;
         if (f == "alpha_em_0") return &b.alpha_em_0; if (f == "alpha_em_mz") return &b.alpha_em_mz; if (f == "alpha_s_mz") return &b.alpha_s_mz;
         if (f == "mh") return &b.mh; if (f == "mw") return &b.mw; if (f == "mz") return &b.mz;
         if (f == "mu") return &b.mu[i]; if (f == "md") return &b.md[i]; if (f == "mv") return &b.mv[i]; if (f == "ml") return &b.ml[i];
         if (f == "ckm_real") return &b.ckm_real[i][k]; if (f == "ckm_imag") return &b.ckm_imag[i][k];
      }
      return nullptr;
   }

   void op_tw(const std::vector<std::string>& t)
   {
      // tw W reset B | tw W mb|gb|sm FIELD I K V | tw W yt INT | tw W smdef [null] | tw W cfgdef [null] | tw W cfg F R
      if (t.size() < 3) return;
      Workspace& s = w.ws[((sim::iparse(t[1]) % NW) + NW) % NW];
      const std::string c = t[2];
      log.str(c);
      if (c == "reset") { default_workspace(s, t.size() > 3 ? (int)(sim::iparse(t[3]) & 3) : 0); }
      else if (c == "zero") {
         // the C idiom `gm2calc_SM sm = {0};` / memset: a struct whose every field is zero
         const std::string which = t.size() > 3 ? t[3] : "sm";
         if (which == "sm") std::memset(&s.sm, 0, sizeof s.sm);
         else if (which == "mb") { const auto y = s.mb.yukawa_type; std::memset(&s.mb, 0, sizeof s.mb); s.mb.yukawa_type = y; }
         else if (which == "gb") { const auto y = s.gb.yukawa_type; std::memset(&s.gb, 0, sizeof s.gb); s.gb.yukawa_type = y; }
         else if (which == "ckm") { std::memset(&s.sm.ckm_real, 0, sizeof s.sm.ckm_real); std::memset(&s.sm.ckm_imag, 0, sizeof s.sm.ckm_imag); }
      }
      else if (c == "mb" || c == "gb" || c == "sm") {
         if (t.size() < 7) return;
         double* p = ws_field(s, c, t[3], (unsigned)sim::iparse(t[4]), (unsigned)sim::iparse(t[5]));
         if (p) *p = sim::dparse(t[6]);
      } else if (c == "yt") {
         if (t.size() < 4) return;
         const int y = (int)sim::iparse(t[3]);
         // any int may arrive in the enum field of a C struct; copy the bytes without converting
         std::memcpy(&s.mb.yukawa_type, &y, sizeof y);
         std::memcpy(&s.gb.yukawa_type, &y, sizeof y);
      } else if (c == "smdef") {
         label("gm2calc_sm_set_to_default");
         try { if (t.size() > 3 && t[3] == "null") gm2calc_sm_set_to_default(nullptr);
               else {
                  gm2calc_sm_set_to_default(&s.sm);
                  const gm2calc::SM d;
                  bool ok = sim::bits(s.sm.alpha_em_0) == sim::bits(d.get_alpha_em_0()) && sim::bits(s.sm.alpha_em_mz) == sim::bits(d.get_alpha_em_mz()) &&
                            sim::bits(s.sm.alpha_s_mz) == sim::bits(d.get_alpha_s_mz()) && sim::bits(s.sm.mh) == sim::bits(d.get_mh()) &&
                            sim::bits(s.sm.mw) == sim::bits(d.get_mw()) && sim::bits(s.sm.mz) == sim::bits(d.get_mz());
                  for (int i = 0; i < 3; ++i) {
                     ok = ok && sim::bits(s.sm.mu[i]) == sim::bits(d.get_mu(i)) && sim::bits(s.sm.md[i]) == sim::bits(d.get_md(i)) &&
                          sim::bits(s.sm.mv[i]) == sim::bits(d.get_mv(i)) && sim::bits(s.sm.ml[i]) == sim::bits(d.get_ml(i));
                     for (int k = 0; k < 3; ++k)
                        ok = ok && sim::bits(s.sm.ckm_real[i][k]) == sim::bits(std::real(d.get_ckm(i, k))) && sim::bits(s.sm.ckm_imag[i][k]) == sim::bits(std::imag(d.get_ckm(i, k)));
                  }
                  if (!ok) violation("mismatch:gm2calc_sm_set_to_default", "C struct differs from default constructed gm2calc::SM");
               }
         } catch (...) { violation("escape:gm2calc_sm_set_to_default:" + current_exception_class(), ""); }
         cover("gm2calc_sm_set_to_default", "-", (t.size() > 3 && t[3] == "null") ? "null" : "ok");
      } else if (c == "cfgdef") {
         label("gm2calc_thdm_config_set_to_default");
         try { if (t.size() > 3 && t[3] == "null") gm2calc_thdm_config_set_to_default(nullptr);
               else {
                  gm2calc_thdm_config_set_to_default(&s.cfg);
                  const gm2calc::thdm::Config d;
                  if ((s.cfg.force_output != 0) != d.force_output || (s.cfg.running_couplings != 0) != d.running_couplings)
                     violation("mismatch:gm2calc_thdm_config_set_to_default", "C struct differs from default constructed Config");
               }
         } catch (...) { violation("escape:gm2calc_thdm_config_set_to_default:" + current_exception_class(), ""); }
         cover("gm2calc_thdm_config_set_to_default", "-", (t.size() > 3 && t[3] == "null") ? "null" : "ok");
      } else if (c == "cfg") {
         if (t.size() < 5) return;
         s.cfg.force_output = (int)sim::iparse(t[3]); s.cfg.running_couplings = (int)sim::iparse(t[4]);
      }
   }

   void op_tnew(const std::vector<std::string>& t)
   {
      // tnew S W mass|gauge SMNULL CFGNULL MODELNULL BASISNULL
      if (t.size() < 4) return;
      const int s = (int)(((sim::iparse(t[1]) % NT) + NT) % NT);
      Workspace& ws = w.ws[((sim::iparse(t[2]) % NW) + NW) % NW];
      const bool mass = t[3] != "gauge";
      const bool smnull = t.size() > 4 && sim::iparse(t[4]) != 0;
      const bool cfgnull = t.size() > 5 && sim::iparse(t[5]) != 0;
      const bool modelnull = t.size() > 6 && sim::iparse(t[6]) != 0;
      const bool basisnull = t.size() > 7 && sim::iparse(t[7]) != 0;
      const std::string fn = mass ? "gm2calc_thdm_new_with_mass_basis" : "gm2calc_thdm_new_with_gauge_basis";
      const CFunc* f = find_cfunc(fn);
      if (!f || !f->p) return;
      if (w.th[s] && !modelnull) { note(fn + " skipped (slot live)"); return; }
      log.str(fn);
      int yt; std::memcpy(&yt, mass ? (void*)&ws.mb.yukawa_type : (void*)&ws.gb.yukawa_type, sizeof yt);
      std::string st = std::string(mass ? "mass" : "gauge") + ",yt=" + ((yt >= 1 && yt <= 6) ? std::to_string(yt) : "out_of_range") +
                       (smnull ? ",sm=null" : "") + (cfgnull ? ",cfg=null" : (ws.cfg.force_output ? ",force" : "")) + (basisnull ? ",basis=null" : "");
      label(fn);
      gm2calc_THDM* out = (gm2calc_THDM*)(uintptr_t)0x1; // sentinel: must be overwritten
      int err = -1; bool escaped = false; std::string exc;
      { CerrCapture cap(cerr_c);
        try {
           if (mass) err = ((gm2calc_error (*)(gm2calc_THDM**, const gm2calc_THDM_mass_basis*, const gm2calc_SM*, const gm2calc_THDM_config*))f->p)(
                         modelnull ? nullptr : &out, basisnull ? nullptr : &ws.mb, smnull ? nullptr : &ws.sm, cfgnull ? nullptr : &ws.cfg);
           else err = ((gm2calc_error (*)(gm2calc_THDM**, const gm2calc_THDM_gauge_basis*, const gm2calc_SM*, const gm2calc_THDM_config*))f->p)(
                         modelnull ? nullptr : &out, basisnull ? nullptr : &ws.gb, smnull ? nullptr : &ws.sm, cfgnull ? nullptr : &ws.cfg);
        } catch (...) { escaped = true; exc = current_exception_class(); } }
      if (escaped) { violation("escape:" + fn + ":" + exc, st); return; }
      log.u64((uint64_t)err);
      if (modelnull) { cover(fn, "model=null", "err" + std::to_string(err)); return; }
      // mirror
      std::unique_ptr<TM> mir; std::string cls;
      { CerrCapture cap(cerr_m);
        try {
           const gm2calc::SM sm = smnull ? gm2calc::SM() : to_cpp(ws.sm);
           const gm2calc::thdm::Config cfg = cfgnull ? gm2calc::thdm::Config() : to_cpp(ws.cfg);
           if (mass) mir.reset(new TM(basisnull ? gm2calc::thdm::Mass_basis() : to_cpp(ws.mb), sm, cfg));
           else mir.reset(new TM(basisnull ? gm2calc::thdm::Gauge_basis() : to_cpp(ws.gb), sm, cfg));
        } catch (...) { cls = current_exception_class(); } }
      if (err != err_of(cls))
         violation("errcode:" + fn, "C returned " + std::to_string(err) + ", C++ " + (cls.empty() ? "did not throw" : "threw " + cls) + " " + st);
      if (err == gm2calc_NoError) {
         if (out == nullptr || out == (gm2calc_THDM*)(uintptr_t)0x1) { violation("null:" + fn, "no model returned with gm2calc_NoError"); return; }
         w.th[s] = out; w.tm[s] = std::move(mir);
         w.tstate[s] = st;
         if (!w.tm[s]) { // C succeeded where C++ threw: already reported; keep a handle to free
            w.tm[s].reset();
         }
      } else {
         if (out != nullptr) {
            violation("notnull:" + fn, "model pointer not set to 0 on error " + std::to_string(err));
            if (out != (gm2calc_THDM*)(uintptr_t)0x1) { w.th[s] = out; w.tstate[s] = st; }
         }
      }
      cover(fn, st, "err" + std::to_string(err));
      note(fn + " " + st + " -> error " + std::to_string(err));
   }

   void op_t(const std::vector<std::string>& t)
   {
      // t S fname A1 A2
      if (t.size() < 3) return;
      const int s = (int)(((sim::iparse(t[1]) % NT) + NT) % NT);
      const std::string fn = t[2];
      const CFunc* f = find_cfunc(fn);
      if (!f || !f->p) return;
      const std::string sig = f->sig;
      const double a1 = t.size() > 3 ? sim::dparse(t[3]) : 0, a2 = t.size() > 4 ? sim::dparse(t[4]) : 0;
      log.str(fn);
      if (sig == "_T") {
         label(fn);
         try { ((void (*)(gm2calc_THDM*))f->p)(w.th[s]); } catch (...) { violation("escape:" + fn + ":" + current_exception_class(), ""); }
         cover(fn, w.th[s] ? "live" : "null", "ok");
         w.th[s] = nullptr; w.tm[s].reset(); w.tstate[s].clear();
         return;
      }
      if (!w.th[s]) { if (stats) stats->add("skipped_no_handle"); return; }
      if (sig != "d_cT" && sig != "d_cT_d_d") return;
      label(fn);
      double cv = 0; bool escaped = false; std::string exc;
      { CerrCapture cap(cerr_c);
        try {
           if (sig == "d_cT") cv = ((double (*)(const gm2calc_THDM*))f->p)(w.th[s]);
           else cv = ((double (*)(const gm2calc_THDM*, double, double))f->p)(w.th[s], a1, a2);
        } catch (...) { escaped = true; exc = current_exception_class(); } }
      if (escaped) { violation("escape:" + fn + ":" + exc, w.tstate[s]); cover(fn, w.tstate[s], "escape"); return; }
      log.dbl(cv);
      std::string outcome = "unmirrored";
      const TEntry* e = find_tentry(fn);
      if (e && w.tm[s]) {
         double mv = 0; std::string mexc;
         { CerrCapture cap(cerr_m); try { mv = e->f(*w.tm[s], a1, a2); } catch (...) { mexc = current_exception_class(); } }
         if (mexc.empty()) {
            outcome = vclass(cv);
            if (sim::bits(cv) != sim::bits(mv)) violation("mismatch:" + fn, w.tstate[s] + " C=" + sim::dstr(cv) + " C++=" + sim::dstr(mv));
         } else outcome = "cpp_throws_" + mexc;
      }
      cover(fn, w.tstate[s], outcome);
      note(fn + " -> " + sim::dstr(cv));
   }

   void op_x(const std::vector<std::string>& t)
   {
      if (t.size() < 3) return;
      const int v = (int)sim::iparse(t[2]);
      log.str(t[1]); log.u64((uint64_t)v);
      if (t[1] == "yuk") {
         label("int_to_c_yukawa_type");
         int got = 0; bool escaped = false; std::string exc;
         { CerrCapture cap(cerr_c);
           try { const gm2calc_THDM_yukawa_type y = int_to_c_yukawa_type(v); std::memcpy(&got, &y, sizeof got); }
           catch (...) { escaped = true; exc = current_exception_class(); } }
         if (escaped) { violation("escape:int_to_c_yukawa_type:" + exc, std::to_string(v)); return; }
         std::string cls; int want = (int)gm2calc_THDM_general;
         try { want = static_cast<int>(gm2calc::thdm::int_to_cpp_yukawa_type(v)); } catch (...) { cls = current_exception_class(); }
         if (cls.empty() && got != want) violation("mismatch:int_to_c_yukawa_type", "C=" + std::to_string(got) + " C++=" + std::to_string(want));
         cover("int_to_c_yukawa_type", "-", cls.empty() ? "ok" : "cpp_throws_" + cls);
      } else if (t[1] == "errstr") {
         label("gm2calc_error_str");
         const char* p = nullptr;
         try {
            gm2calc_error e; std::memcpy(&e, &v, sizeof v);
            p = gm2calc_error_str(e);
         } catch (...) { violation("escape:gm2calc_error_str:" + current_exception_class(), std::to_string(v)); return; }
         if (!p) { violation("null:gm2calc_error_str", std::to_string(v)); return; }
         const std::string sp(p);
         if (sp.empty()) violation("mismatch:gm2calc_error_str", "empty description for code " + std::to_string(v));
         log.str(sp);
         cover("gm2calc_error_str", "-", (v >= 0 && v <= 3) ? "known" : "other");
      }
   }

   // ---------------------------------------------------------------- driver
   // ---- client threads: an op line may begin with "@1" or "@2": it is then executed by that long-lived client thread
   // (C call and mirror call alike) while the dispatching thread waits -- strictly one at a time, so a history stays
   // a deterministic sequence, but handles cross threads the way they do in a thread pool: created by one thread, used
   // by another, freed by a third.  State a wrapper keeps per thread (thread_local caches) meets such histories.
   struct ClientPool {
      struct Slot { pthread_t th; sem_t start, done; std::function<void()> job; };
      Slot slot[2]; bool up = false;
      static void* loop(void* p) { Slot* s = (Slot*)p; for (;;) { sem_wait(&s->start); s->job(); sem_post(&s->done); } return nullptr; }
      void ensure() { if (up) return; for (auto& s : slot) { sem_init(&s.start, 0, 0); sem_init(&s.done, 0, 0); pthread_create(&s.th, nullptr, loop, &s); } up = true; }
      void run_on(int k, std::function<void()> f) { ensure(); Slot& s = slot[(k - 1) & 1]; s.job = std::move(f); sem_post(&s.start); sem_wait(&s.done); }
   };
   static ClientPool& pool() { static ClientPool p; return p; }
   uint64_t cross_thread_ops = 0;

   void exec_line(const std::string& line)
   {
      std::vector<std::string> t = sim::split(line);
      if (t.empty() || t[0][0] == '#') return;
      if (t[0][0] == '@') {
         const int k = (t[0].size() > 1 && t[0][1] >= '0' && t[0][1] <= '9') ? (t[0][1] - '0') % 3 : 0;
         t.erase(t.begin());
         if (t.empty()) return;
         if (k != 0) { ++cross_thread_ops; if (stats) stats->add("ops_on_client_threads"); pool().run_on(k, [this, &t] { exec_tokens(t); }); return; }
      }
      exec_tokens(t);
   }

   void exec_tokens(const std::vector<std::string>& t)
   {
      if (t[0] == "m") op_m(t);
      else if (t[0] == "mfill") op_mfill(t);
      else if (t[0] == "tw") op_tw(t);
      else if (t[0] == "tnew") op_tnew(t);
      else if (t[0] == "t") op_t(t);
      else if (t[0] == "x") op_x(t);
   }

   /// run a whole plan; returns first violation signature or "" (handles are freed at the end)
   void run(const std::vector<std::string>& plan)
   {
      for (int i = 0; i < NW; ++i) default_workspace(w.ws[i], 0);
      for (op_index = 0; op_index < plan.size(); ++op_index) {
         exec_line(plan[op_index]);
         if (!viol.empty()) break;
      }
      // final state comparison of all live MSSM handles, then release everything
      if (viol.empty())
         for (int s = 0; s < NM; ++s) if (w.mh[s] && viol.empty()) full_state_compare(s, "end of history");
      if (prog) prog->set(run_index, op_index, "cleanup");
      reset();
   }
};

} // namespace apisim

#endif
