// thrsim layer L2: the same workload with REAL concurrent threads under the real ThreadSanitizer.
//
// This file implements the thrsim runtime interface (rt.hpp) without any simulation: run_tasks() starts n pthreads
// that wait for a common start signal and then execute their programs truly concurrently, with randomised yields at
// operation boundaries.  The library objects are the same -fsanitize=thread objects the simulator uses; here they are
// linked against libtsan, so that data races are judged by an independent detector (including what its interceptors
// see inside uninstrumented libstdc++/libc calls: memcpy, malloc, pthread, guards).  Not deterministic: used as a
// cross-validation sample only, never as the deciding step.
#include "rt.hpp"

#include <atomic>
#include <pthread.h>
#include <sched.h>

namespace thrsim {

namespace {
Result g_result;
std::atomic<int> g_go{0};
struct Arg { int id; void (*fn)(int, void*); void* arg; uint64_t seed; };
thread_local uint64_t t_rng = 0;

void* trampoline(void* p)
{
   Arg* a = (Arg*)p;
   t_rng = a->seed * 0x9e3779b97f4a7c15ULL + (uint64_t)a->id + 1;
   while (!g_go.load(std::memory_order_acquire)) sched_yield();
   a->fn(a->id, a->arg);
   return nullptr;
}
} // namespace

void init() {}
void set_malloc_fill(int) {} // (the real-thread layer keeps ThreadSanitizer's allocator)

void run_tasks(int n, void (*fn)(int, void*), void* arg, const Config& cfg)
{
   g_result = Result();
   g_go.store(0);
   pthread_t th[MAX_TASKS];
   Arg args[MAX_TASKS];
   if (n > MAX_TASKS) n = MAX_TASKS;
   for (int i = 0; i < n; ++i) { args[i] = {i, fn, arg, cfg.seed}; pthread_create(&th[i], nullptr, trampoline, &args[i]); }
   g_go.store(1, std::memory_order_release);
   for (int i = 0; i < n; ++i) pthread_join(th[i], nullptr);
}

void op_boundary(int)
{
   // randomised yields between operations
   t_rng ^= t_rng << 13; t_rng ^= t_rng >> 7; t_rng ^= t_rng << 17;
   if ((t_rng & 3) == 0) sched_yield();
}

const Result& result() { return g_result; }
uint64_t sequential_events() { return 0; }
void reset_sequential_events() {}
void set_probes(const std::vector<std::pair<uintptr_t, uintptr_t>>&) {}
std::vector<std::pair<uintptr_t, uintptr_t>> find_functions(const std::string&) { return {}; }
std::string symbolize(uintptr_t) { return ""; }

} // namespace thrsim
