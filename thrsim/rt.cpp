// thrsim runtime.  Compiled WITHOUT instrumentation.  The library objects are
// compiled with g++ -fsanitize=thread but linked against this file instead of
// libtsan: every __tsan_* call-out is (a) an event of the logical clock,
// (b) input to the happens-before race detector, (c) a possible preemption.
// Caller threads are real pthreads parked on semaphores; exactly one runs.
#ifndef _GNU_SOURCE
#define _GNU_SOURCE
#endif
#include "rt.hpp"
#include "../common/sim.hpp"

#include <algorithm>
#include <cerrno>
#include <cxxabi.h>
#include <malloc.h>
#include <pthread.h>
#include <semaphore.h>
#include <sys/time.h>
#include <time.h>
#include <unordered_map>

extern "C" {
int __real_sem_wait(sem_t*); int __real_sem_post(sem_t*); int __real_sem_init(sem_t*, int, unsigned); int __real_sem_destroy(sem_t*);
int __real_sem_trywait(sem_t*); int __real_sem_timedwait(sem_t*, const struct timespec*);
int __real_pthread_create(pthread_t*, const pthread_attr_t*, void* (*)(void*), void*);
int __real_pthread_join(pthread_t, void**);
int __real_pthread_mutex_lock(pthread_mutex_t*); int __real_pthread_mutex_trylock(pthread_mutex_t*); int __real_pthread_mutex_unlock(pthread_mutex_t*);
int __real_pthread_rwlock_rdlock(pthread_rwlock_t*); int __real_pthread_rwlock_wrlock(pthread_rwlock_t*); int __real_pthread_rwlock_unlock(pthread_rwlock_t*);
int __real_pthread_rwlock_tryrdlock(pthread_rwlock_t*); int __real_pthread_rwlock_trywrlock(pthread_rwlock_t*);
int __real_pthread_once(pthread_once_t*, void (*)(void));
int __real_pthread_cond_wait(pthread_cond_t*, pthread_mutex_t*); int __real_pthread_cond_timedwait(pthread_cond_t*, pthread_mutex_t*, const struct timespec*);
int __real_pthread_cond_signal(pthread_cond_t*); int __real_pthread_cond_broadcast(pthread_cond_t*);
int __real_pthread_barrier_wait(pthread_barrier_t*);
int __real___cxa_guard_acquire(long long*); void __real___cxa_guard_release(long long*); void __real___cxa_guard_abort(long long*);
void* __real_memcpy(void*, const void*, size_t); void* __real_memmove(void*, const void*, size_t); void* __real_memset(void*, int, size_t);
time_t __real_time(time_t*); int __real_clock_gettime(clockid_t, struct timespec*); int __real_gettimeofday(struct timeval*, void*);
int __real_rand(void); long __real_random(void); void __real_srand(unsigned);
void* __libc_malloc(size_t); void __libc_free(void*); void* __libc_calloc(size_t, size_t); void* __libc_realloc(void*, size_t); void* __libc_memalign(size_t, size_t);
extern char __data_start, _end;
}

int g_thrsim_malloc_fill = -1; ///< byte that fresh heap blocks are filled with (-1: left as the allocator returns them)

namespace thrsim {
void set_malloc_fill(int byte) { g_thrsim_malloc_fill = byte; }
namespace {

enum TState { T_UNUSED, T_RUNNABLE, T_BLOCKED, T_DONE };

struct Task {
   pthread_t th; sem_t sem; int state = T_UNUSED; uint32_t vc[MAX_TASKS]; int cur_op = -1; uint64_t op_start_events = 0;
   uintptr_t stack_lo = 0, stack_hi = 0; uintptr_t callstack[64]; int depth = 0; int priority = 0; uintptr_t blocked_on = 0;
   void (*fn)(int, void*) = nullptr; void* arg = nullptr;
};

Task T[MAX_TASKS];
int g_ntasks = 0;
volatile int g_cur = -1;
volatile bool g_active = false;
sem_t g_main_sem;
thread_local int tl_task = -1;
// true while the calling thread executes code of this runtime (always, except inside a task's own
// function): the runtime's own memcpy/memset calls (containers growing) must never be taken for
// accesses of the code under test, let alone become preemption points
thread_local bool tl_in_rt = true;
struct RtScope { bool old; RtScope() : old(tl_in_rt) { tl_in_rt = true; } ~RtScope() { tl_in_rt = old; } };
Config g_cfg;
Result g_res;
sim::Rng g_rng;
int64_t g_countdown = 0;
uint64_t g_seg_start = 0;
std::vector<uint64_t> g_pct_points; size_t g_pct_next = 0; int g_pct_low = 0;
uint64_t g_seq_events = 0;
sim::Fnv g_trace_fnv, g_inter_fnv;
uint64_t g_race_keys[64]; int g_nrace_keys = 0;
struct Probe { uintptr_t lo, hi; uint64_t hits; };
Probe g_probes[32]; int g_nprobes = 0;

// ------------------------------------------------------------- shadow memory
struct Slot { uint32_t clk; uint8_t tid, off, size, write; uint16_t op; uintptr_t pc; };
struct Cell { uintptr_t word; uint32_t gen; uint16_t touched; uint8_t next; uint8_t n; Slot s[4]; };
constexpr size_t SH_BITS = 18, SH_SIZE = size_t(1) << SH_BITS;
Cell* g_shadow = nullptr; uint32_t g_gen = 1; size_t g_shadow_used = 0; uint64_t g_shadow_dropped = 0;

inline Cell* cell_for(uintptr_t word, bool create)
{
   size_t h = (size_t)((word >> 3) * 0x9e3779b97f4a7c15ULL >> (64 - SH_BITS));
   for (size_t probe = 0; probe < 64; ++probe) {
      Cell& c = g_shadow[(h + probe) & (SH_SIZE - 1)];
      if (c.gen == g_gen && c.word == word) return &c;
      if (c.gen != g_gen) {
         if (!create) return nullptr;
         if (g_shadow_used > SH_SIZE / 2) { ++g_shadow_dropped; return nullptr; }
         c.gen = g_gen; c.word = word; c.touched = 0; c.next = 0; c.n = 0; ++g_shadow_used;
         return &c;
      }
   }
   if (create) ++g_shadow_dropped;
   return nullptr;
}

void clear_range(uintptr_t a, size_t n)
{
   if (!g_active || n == 0 || n > (1u << 20)) return;
   for (uintptr_t w = a & ~uintptr_t(7); w < a + n; w += 8) {
      Cell* c = cell_for(w, false);
      if (c) { c->n = 0; c->touched = 0; }
   }
}

// ------------------------------------------------------------- sync objects
struct Sync { uint32_t vc[MAX_TASKS] = {}; int owner = -1; int count = 0; int readers = 0; int state = 0; };
std::unordered_map<uintptr_t, Sync>* g_sync = nullptr;
Sync& sync_of(uintptr_t a) { return (*g_sync)[a]; }
inline void acquire(Sync& s) { Task& t = T[g_cur]; for (int i = 0; i < MAX_TASKS; ++i) if (s.vc[i] > t.vc[i]) t.vc[i] = s.vc[i]; }
inline void release(Sync& s) { Task& t = T[g_cur]; for (int i = 0; i < MAX_TASKS; ++i) if (t.vc[i] > s.vc[i]) s.vc[i] = t.vc[i]; ++t.vc[g_cur]; }

// ---------------------------------------------------------------- scheduler
void die(const char* what, int code)
{
   std::fprintf(stderr, "thrsim: %s\n", what);
   std::fflush(stderr);
   _exit(code);
}

int pick_next(bool exclude_cur)
{
   int runnable[MAX_TASKS], n = 0;
   for (int i = 0; i < g_ntasks; ++i) if (T[i].state == T_RUNNABLE && !(exclude_cur && i == g_cur)) runnable[n++] = i;
   if (n == 0) return -1;
   switch (g_cfg.strategy) {
   case S_PCT: { int best = runnable[0]; for (int k = 1; k < n; ++k) if (T[runnable[k]].priority > T[best].priority) best = runnable[k]; return best; }
   case S_RR: { for (int d = 1; d <= g_ntasks; ++d) { const int c = (g_cur + d) % g_ntasks; if (T[c].state == T_RUNNABLE && !(exclude_cur && c == g_cur)) return c; } return runnable[0]; }
   default: return runnable[g_rng.below((uint64_t)n)];
   }
}

void reset_countdown()
{
   switch (g_cfg.strategy) {
   case S_RR: g_countdown = (int64_t)std::max(1.0, g_cfg.quantum); break;
   case S_PCT: case S_SERIAL: g_countdown = INT64_MAX; break;
   default: g_countdown = (int64_t)g_rng.geometric(g_cfg.quantum); break;
   }
}

void end_segment()
{
   const uint64_t len = g_res.events - g_seg_start;
   if (g_res.trace.size() < 200000) g_res.trace.push_back({g_cur, len});
   g_trace_fnv.u64((uint64_t)g_cur); g_trace_fnv.u64(len);
   g_seg_start = g_res.events;
}

/// hand the baton to `next` and park the calling task
void switch_to(int next)
{
   const int prev = g_cur;
   end_segment();
   ++g_res.switches;
   if (T[prev].state != T_DONE && g_res.events > T[prev].op_start_events) ++g_res.preempt_in_op;
   g_cur = next;
   __real_sem_post(&T[next].sem);
   if (T[prev].state != T_DONE) __real_sem_wait(&T[prev].sem);
}

void reschedule(bool exclude_cur)
{
   ++g_res.decisions;
   reset_countdown();
   const int next = pick_next(exclude_cur);
   if (next >= 0 && next != g_cur) switch_to(next);
}

/// current task cannot continue until somebody changes the state of `obj`
void block_on(uintptr_t obj)
{
   T[g_cur].state = T_BLOCKED; T[g_cur].blocked_on = obj;
   const int next = pick_next(true);
   if (next < 0) { g_res.deadlock = true; die("DEADLOCK: all tasks are blocked", 80); }
   reset_countdown();
   ++g_res.decisions;
   switch_to(next);
}
void wake_waiters(uintptr_t obj)
{
   for (int i = 0; i < g_ntasks; ++i) if (T[i].state == T_BLOCKED && T[i].blocked_on == obj) { T[i].state = T_RUNNABLE; T[i].blocked_on = 0; }
}

inline void sched_point(bool conflict_trigger)
{
   if (g_res.events > g_cfg.max_events) { g_res.livelock = true; die("LIVELOCK: event bound exceeded", 81); }
   switch (g_cfg.strategy) {
   case S_SERIAL: return;
   case S_PCT:
      if (g_pct_next < g_pct_points.size() && g_res.events >= g_pct_points[g_pct_next]) { ++g_pct_next; T[g_cur].priority = --g_pct_low; reschedule(false); }
      return;
   case S_CONFLICT:
      if (conflict_trigger && g_rng.chance(0.5)) { ++g_res.conflict_switches; reschedule(true); return; }
      // fall through
   default:
      if (--g_countdown <= 0) reschedule(false);
   }
}

// ------------------------------------------------------------ race detector
void report_race(const Slot& old, uintptr_t addr, unsigned size, bool write, uintptr_t pc)
{
   const uint64_t key = (uint64_t)old.pc * 1000003u ^ (uint64_t)pc;
   for (int i = 0; i < g_nrace_keys; ++i) if (g_race_keys[i] == key) return;
   if (g_nrace_keys < 64) g_race_keys[g_nrace_keys++] = key;
   if (g_res.races.size() >= 16) return;
   Race r;
   r.addr = addr; r.size = size; r.task_a = old.tid; r.op_a = old.op; r.pc_a = old.pc; r.write_a = old.write;
   r.task_b = g_cur; r.op_b = T[g_cur].cur_op; r.pc_b = pc; r.write_b = write;
   for (int d = T[g_cur].depth - 1; d >= 0 && r.stack_b.size() < 12; --d) if (d < 64) r.stack_b.push_back(T[g_cur].callstack[d]);
   g_res.races.push_back(r);
}

inline void access(uintptr_t a, unsigned size, bool write, uintptr_t pc)
{
   if (!g_active) { ++g_seq_events; return; }
   if (tl_task != g_cur || tl_task < 0) return; // not one of the simulated caller threads
   RtScope rs;
   Task& t = T[g_cur];
   ++g_res.events;
   bool trigger = false;
   if (!(a >= t.stack_lo && a < t.stack_hi)) {
      uintptr_t p = a; unsigned left = size;
      while (left) {
         const uintptr_t word = p & ~uintptr_t(7); const unsigned off = (unsigned)(p & 7); const unsigned n = std::min(left, 8 - off);
         Cell* c = cell_for(word, true);
         if (c) {
            int same = -1;
            for (int i = 0; i < c->n; ++i) {
               const Slot& s = c->s[i];
               if (s.tid == g_cur) { if (s.write == (uint8_t)write && s.off == off && s.size == n) same = i; continue; }
               if ((s.write || write) && s.off < off + n && off < (unsigned)s.off + s.size && s.clk > t.vc[s.tid]) report_race(s, p, n, write, pc);
            }
            const uint16_t bit = (uint16_t)(1u << g_cur);
            if (c->touched & ~bit) {
               ++g_res.shared_accesses;
               g_inter_fnv.u64(((uint64_t)g_cur << 32) | (uint32_t)t.cur_op);
               if (write) trigger = true;
            }
            c->touched |= bit;
            Slot ns; ns.clk = t.vc[g_cur]; ns.tid = (uint8_t)g_cur; ns.off = (uint8_t)off; ns.size = (uint8_t)n; ns.write = write; ns.op = (uint16_t)t.cur_op; ns.pc = pc;
            if (same >= 0) c->s[same] = ns;
            else if (c->n < 4) c->s[c->n++] = ns;
            else {
               // evict: prefer an older slot of the same task with the same access kind, then round robin
               int v = -1;
               for (int i = 0; i < 4; ++i) if (c->s[i].tid == g_cur && c->s[i].write == (uint8_t)write) { v = i; break; }
               if (v < 0) { v = c->next; c->next = (uint8_t)((c->next + 1) & 3); }
               c->s[v] = ns;
            }
         }
         if (write && p >= (uintptr_t)&__data_start && p < (uintptr_t)&_end) trigger = true; // static storage of the executable
         p += n; left -= n;
      }
   }
   sched_point(trigger);
}

void* task_main(void* p)
{
   const int me = (int)(intptr_t)p;
   tl_task = me;
   pthread_attr_t at;
   if (pthread_getattr_np(pthread_self(), &at) == 0) {
      void* lo = nullptr; size_t sz = 0;
      pthread_attr_getstack(&at, &lo, &sz);
      T[me].stack_lo = (uintptr_t)lo; T[me].stack_hi = (uintptr_t)lo + sz;
      pthread_attr_destroy(&at);
   }
   __real_sem_wait(&T[me].sem);
   tl_in_rt = false;
   T[me].fn(me, T[me].arg);
   tl_in_rt = true;
   // finished: pass the baton on
   T[me].state = T_DONE;
   const int next = pick_next(true);
   if (next >= 0) { ++g_res.decisions; reset_countdown(); switch_to(next); }
   else {
      for (int i = 0; i < g_ntasks; ++i) if (T[i].state == T_BLOCKED) { g_res.deadlock = true; die("DEADLOCK: tasks blocked after the last runnable task finished", 80); }
      end_segment();
      g_cur = -1;
      __real_sem_post(&g_main_sem);
   }
   return nullptr;
}

// ------------------------------------------------------------- symbol table
struct Sym { uintptr_t addr; std::string name; };
std::vector<Sym>* g_syms = nullptr;
void load_symbols()
{
   if (g_syms) return;
   g_syms = new std::vector<Sym>();
   char exe[4096];
   const ssize_t el = readlink("/proc/self/exe", exe, sizeof exe - 1);
   if (el <= 0) return;
   exe[el] = 0;
   const std::string cmd = std::string("nm -n --defined-only '") + exe + "' 2>/dev/null";
   FILE* f = popen(cmd.c_str(), "r");
   if (!f) return;
   char line[8192];
   while (std::fgets(line, sizeof line, f)) {
      char* e = nullptr;
      const uintptr_t a = (uintptr_t)std::strtoull(line, &e, 16);
      if (!e || e == line || *e != ' ') continue;
      if (!e[1] || e[2] != ' ') continue;
      std::string name(e + 3);
      while (!name.empty() && (name.back() == '\n' || name.back() == '\r')) name.pop_back();
      g_syms->push_back({a, name});
   }
   pclose(f);
}

} // namespace

std::string symbolize(uintptr_t addr)
{
   load_symbols();
   if (!g_syms || g_syms->empty()) return "";
   size_t lo = 0, hi = g_syms->size();
   while (lo + 1 < hi) { const size_t mid = (lo + hi) / 2; if ((*g_syms)[mid].addr <= addr) lo = mid; else hi = mid; }
   if ((*g_syms)[lo].addr > addr || addr - (*g_syms)[lo].addr > (1u << 20)) return "";
   int st = 0; char* d = abi::__cxa_demangle((*g_syms)[lo].name.c_str(), nullptr, nullptr, &st);
   std::string r = (st == 0 && d) ? d : (*g_syms)[lo].name;
   std::free(d);
   return r;
}

void init()
{
   if (!g_shadow) g_shadow = (Cell*)__libc_calloc(SH_SIZE, sizeof(Cell));
   if (!g_sync) g_sync = new std::unordered_map<uintptr_t, Sync>();
   __real_sem_init(&g_main_sem, 0, 0);
}

void set_probes(const std::vector<std::pair<uintptr_t, uintptr_t>>& ranges)
{
   g_nprobes = 0;
   for (auto& r : ranges) if (g_nprobes < 32) g_probes[g_nprobes++] = {r.first, r.second, 0};
}

std::vector<std::pair<uintptr_t, uintptr_t>> find_functions(const std::string& substring)
{
   std::vector<std::pair<uintptr_t, uintptr_t>> out;
   load_symbols();
   if (!g_syms) return out;
   for (size_t i = 0; i + 1 < g_syms->size(); ++i) {
      int st = 0; char* d = abi::__cxa_demangle((*g_syms)[i].name.c_str(), nullptr, nullptr, &st);
      const std::string n = (st == 0 && d) ? d : (*g_syms)[i].name;
      std::free(d);
      if (n.find(substring) != std::string::npos && (*g_syms)[i + 1].addr > (*g_syms)[i].addr) out.push_back({(*g_syms)[i].addr, (*g_syms)[i + 1].addr});
   }
   return out;
}

const Result& result() { return g_res; }
uint64_t sequential_events() { return g_seq_events; }
void reset_sequential_events() { g_seq_events = 0; }

void op_boundary(int op_index)
{
   if (!g_active || tl_task != g_cur || tl_task < 0) return;
   RtScope rs;
   Task& t = T[g_cur];
   t.cur_op = op_index;
   t.op_start_events = g_res.events;
   if (g_cfg.strategy == S_SERIAL) { reschedule(false); T[tl_task].op_start_events = g_res.events; }
}

void run_tasks(int n, void (*fn)(int, void*), void* arg, const Config& cfg)
{
   init();
   if (n > MAX_TASKS) n = MAX_TASKS;
   g_cfg = cfg; g_res = Result(); g_ntasks = n;
   g_rng.reseed(cfg.seed);
   ++g_gen; g_shadow_used = 0; g_shadow_dropped = 0;
   if (g_gen == 0) { std::memset(g_shadow, 0, SH_SIZE * sizeof(Cell)); g_gen = 1; }
   g_sync->clear();
   g_trace_fnv = sim::Fnv(); g_inter_fnv = sim::Fnv(); g_nrace_keys = 0; g_seg_start = 0;
   g_pct_points.clear(); g_pct_next = 0; g_pct_low = 0;
   for (int i = 0; i < g_nprobes; ++i) g_probes[i].hits = 0;
   if (cfg.strategy == S_PCT) {
      for (int i = 0; i < cfg.pct_depth; ++i) g_pct_points.push_back(1 + g_rng.below(std::max<uint64_t>(cfg.est_events, 2)));
      std::sort(g_pct_points.begin(), g_pct_points.end());
   }
   // random priorities (a permutation) for pct; harmless otherwise
   int perm[MAX_TASKS];
   for (int i = 0; i < n; ++i) perm[i] = i;
   for (int i = n - 1; i > 0; --i) std::swap(perm[i], perm[g_rng.below((uint64_t)i + 1)]);
   for (int i = 0; i < n; ++i) {
      Task& t = T[i];
      t.state = T_RUNNABLE; t.cur_op = -1; t.op_start_events = 0; t.depth = 0; t.priority = perm[i] + 1; t.blocked_on = 0; t.fn = fn; t.arg = arg;
      std::memset(t.vc, 0, sizeof t.vc); t.vc[i] = 1;
      __real_sem_init(&t.sem, 0, 0);
   }
   for (int i = 0; i < n; ++i) __real_pthread_create(&T[i].th, nullptr, task_main, (void*)(intptr_t)i);
   reset_countdown();
   g_active = true;
   g_cur = 0; g_cur = pick_next(false);
   __real_sem_post(&T[g_cur].sem);
   __real_sem_wait(&g_main_sem);
   g_active = false;
   for (int i = 0; i < n; ++i) { __real_pthread_join(T[i].th, nullptr); __real_sem_destroy(&T[i].sem); T[i].state = T_UNUSED; }
   g_res.trace_hash = g_trace_fnv.h; g_res.interleave_hash = g_inter_fnv.h;
   for (int i = 0; i < g_nprobes; ++i) g_res.probe_hits.push_back(g_probes[i].hits);
   for (auto& r : g_res.races) {
      r.fn_a = symbolize(r.pc_a); r.fn_b = symbolize(r.pc_b);
      if (r.addr >= (uintptr_t)&__data_start && r.addr < (uintptr_t)&_end) r.where = symbolize(r.addr); else r.where = "heap";
      if (r.where.empty()) r.where = "static storage";
   }
}

} // namespace thrsim

// =================================================================== hooks
using namespace thrsim;
#define PC ((uintptr_t)__builtin_return_address(0))

extern "C" {

void __tsan_init() {}
void __tsan_func_entry(void* pc)
{
   if (g_active && tl_task == g_cur && tl_task >= 0) {
      Task& t = T[g_cur];
      if (t.depth < 64) t.callstack[t.depth] = (uintptr_t)pc;
      ++t.depth;
      if (g_nprobes) { const uintptr_t self = PC; for (int i = 0; i < g_nprobes; ++i) if (self >= g_probes[i].lo && self < g_probes[i].hi) ++g_probes[i].hits; }
   }
}
void __tsan_func_exit() { if (g_active && tl_task == g_cur && tl_task >= 0) { Task& t = T[g_cur]; if (t.depth > 0) --t.depth; } }

#define RW(n) \
   void __tsan_read##n(void* a) { access((uintptr_t)a, n, false, PC); } \
   void __tsan_write##n(void* a) { access((uintptr_t)a, n, true, PC); } \
   void __tsan_unaligned_read##n(void* a) { access((uintptr_t)a, n, false, PC); } \
   void __tsan_unaligned_write##n(void* a) { access((uintptr_t)a, n, true, PC); }
RW(1) RW(2) RW(4) RW(8) RW(16)
void __tsan_read_range(void* a, size_t n) { if (n) access((uintptr_t)a, (unsigned)std::min<size_t>(n, 1u << 16), false, PC); }
void __tsan_write_range(void* a, size_t n) { if (n) access((uintptr_t)a, (unsigned)std::min<size_t>(n, 1u << 16), true, PC); }
void __tsan_vptr_update(void** a, void*) { access((uintptr_t)a, 8, true, PC); }
void __tsan_vptr_read(void** a) { access((uintptr_t)a, 8, false, PC); }

// ---- atomics: performed for real; load = acquire, store = release, RMW = both (on a sync object per address)
static inline bool in_task() { return g_active && tl_task == g_cur && tl_task >= 0; }
static inline void at_load(uintptr_t a) { if (in_task()) { RtScope rs; ++g_res.events; ++g_res.atomic_ops; acquire(sync_of(a)); sched_point(false); } }
static inline void at_store(uintptr_t a) { if (in_task()) { RtScope rs; ++g_res.events; ++g_res.atomic_ops; release(sync_of(a)); sched_point(false); } }
static inline void at_rmw(uintptr_t a) { if (in_task()) { RtScope rs; ++g_res.events; ++g_res.atomic_ops; Sync& s = sync_of(a); acquire(s); release(s); sched_point(false); } }

#define ATOMICS(T, n) \
   T __tsan_atomic##n##_load(const volatile T* a, int) { const T r = __atomic_load_n(a, __ATOMIC_SEQ_CST); at_load((uintptr_t)a); return r; } /* load first: no preemption between the load and its acquire edge */ \
   void __tsan_atomic##n##_store(volatile T* a, T v, int) { __atomic_store_n(a, v, __ATOMIC_SEQ_CST); at_store((uintptr_t)a); } \
   T __tsan_atomic##n##_exchange(volatile T* a, T v, int) { T r = __atomic_exchange_n(a, v, __ATOMIC_SEQ_CST); at_rmw((uintptr_t)a); return r; } \
   T __tsan_atomic##n##_fetch_add(volatile T* a, T v, int) { T r = __atomic_fetch_add(a, v, __ATOMIC_SEQ_CST); at_rmw((uintptr_t)a); return r; } \
   T __tsan_atomic##n##_fetch_sub(volatile T* a, T v, int) { T r = __atomic_fetch_sub(a, v, __ATOMIC_SEQ_CST); at_rmw((uintptr_t)a); return r; } \
   T __tsan_atomic##n##_fetch_and(volatile T* a, T v, int) { T r = __atomic_fetch_and(a, v, __ATOMIC_SEQ_CST); at_rmw((uintptr_t)a); return r; } \
   T __tsan_atomic##n##_fetch_or(volatile T* a, T v, int) { T r = __atomic_fetch_or(a, v, __ATOMIC_SEQ_CST); at_rmw((uintptr_t)a); return r; } \
   T __tsan_atomic##n##_fetch_xor(volatile T* a, T v, int) { T r = __atomic_fetch_xor(a, v, __ATOMIC_SEQ_CST); at_rmw((uintptr_t)a); return r; } \
   T __tsan_atomic##n##_fetch_nand(volatile T* a, T v, int) { T r = __atomic_fetch_nand(a, v, __ATOMIC_SEQ_CST); at_rmw((uintptr_t)a); return r; } \
   int __tsan_atomic##n##_compare_exchange_strong(volatile T* a, T* c, T v, int, int) { int r = __atomic_compare_exchange_n(a, c, v, false, __ATOMIC_SEQ_CST, __ATOMIC_SEQ_CST); at_rmw((uintptr_t)a); return r; } \
   int __tsan_atomic##n##_compare_exchange_weak(volatile T* a, T* c, T v, int, int) { int r = __atomic_compare_exchange_n(a, c, v, false, __ATOMIC_SEQ_CST, __ATOMIC_SEQ_CST); at_rmw((uintptr_t)a); return r; } \
   T __tsan_atomic##n##_compare_exchange_val(volatile T* a, T c, T v, int, int) { __atomic_compare_exchange_n(a, &c, v, false, __ATOMIC_SEQ_CST, __ATOMIC_SEQ_CST); at_rmw((uintptr_t)a); return c; }
ATOMICS(uint8_t, 8) ATOMICS(uint16_t, 16) ATOMICS(uint32_t, 32) ATOMICS(uint64_t, 64)
void __tsan_atomic_thread_fence(int) { if (in_task()) { RtScope rs; ++g_res.atomic_ops; Sync& s = sync_of(1); acquire(s); release(s); } }
void __tsan_atomic_signal_fence(int) {}

// ---- memory intrinsics called from instrumented code
void* __wrap_memcpy(void* d, const void* s, size_t n) { if (n && g_active && !tl_in_rt) { access((uintptr_t)s, (unsigned)std::min<size_t>(n, 1u << 16), false, PC); access((uintptr_t)d, (unsigned)std::min<size_t>(n, 1u << 16), true, PC); } return __real_memcpy(d, s, n); }
void* __wrap_memmove(void* d, const void* s, size_t n) { if (n && g_active && !tl_in_rt) { access((uintptr_t)s, (unsigned)std::min<size_t>(n, 1u << 16), false, PC); access((uintptr_t)d, (unsigned)std::min<size_t>(n, 1u << 16), true, PC); } return __real_memmove(d, s, n); }
void* __wrap_memset(void* d, int c, size_t n) { if (n && g_active && !tl_in_rt) access((uintptr_t)d, (unsigned)std::min<size_t>(n, 1u << 16), true, PC); return __real_memset(d, c, n); }

// ---- allocator: interposed for the whole process so that reuse of freed memory is never a race
// the simulator decides what "uninitialised heap memory" contains: fresh blocks are filled with a byte the workload
// chooses (different in the simulated and in the sequential executions), so a value computed from heap memory that was
// never written makes the executions disagree instead of depending on what the allocator happens to recycle
static inline void* filled(void* p, size_t n) { if (p && g_thrsim_malloc_fill >= 0 && n <= (1u << 20)) __real_memset(p, g_thrsim_malloc_fill, n); return p; }
void* malloc(size_t n) { return filled(__libc_malloc(n), n); }
void* calloc(size_t a, size_t b) { return __libc_calloc(a, b); }
void free(void* p) { if (p && g_active) clear_range((uintptr_t)p, malloc_usable_size(p)); __libc_free(p); }
void* realloc(void* p, size_t n) { if (p && g_active) clear_range((uintptr_t)p, malloc_usable_size(p)); return __libc_realloc(p, n); }
void* memalign(size_t al, size_t n) { return filled(__libc_memalign(al, n), n); }
void* aligned_alloc(size_t al, size_t n) { return filled(__libc_memalign(al, n), n); }
int posix_memalign(void** out, size_t al, size_t n) { void* p = filled(__libc_memalign(al, n), n); if (!p) return ENOMEM; *out = p; return 0; }

// ---- mutexes (simulated while a simulation is active)
int __wrap_pthread_mutex_lock(pthread_mutex_t* m)
{
   if (!in_task()) return __real_pthread_mutex_lock(m);
   RtScope rs;
   ++g_res.events; ++g_res.mutex_locks;
   Sync& s = sync_of((uintptr_t)m);
   bool waited = false;
   while (s.owner != -1 && s.owner != g_cur) { if (!waited) { ++g_res.mutex_waits; waited = true; } block_on((uintptr_t)m); }
   Sync& s2 = sync_of((uintptr_t)m);
   s2.owner = g_cur; ++s2.count; acquire(s2);
   sched_point(false);
   return 0;
}
int __wrap_pthread_mutex_trylock(pthread_mutex_t* m)
{
   if (!in_task()) return __real_pthread_mutex_trylock(m);
   RtScope rs;
   ++g_res.events; ++g_res.mutex_locks;
   Sync& s = sync_of((uintptr_t)m);
   if (s.owner != -1 && s.owner != g_cur) { sched_point(false); return EBUSY; }
   s.owner = g_cur; ++s.count; acquire(s);
   sched_point(false);
   return 0;
}
int __wrap_pthread_mutex_unlock(pthread_mutex_t* m)
{
   if (!in_task()) return __real_pthread_mutex_unlock(m);
   RtScope rs;
   ++g_res.events;
   Sync& s = sync_of((uintptr_t)m);
   if (s.owner == g_cur) { release(s); if (--s.count <= 0) { s.owner = -1; s.count = 0; wake_waiters((uintptr_t)m); } }
   sched_point(false);
   return 0;
}
// rwlocks: writers exclusive, readers shared
static int rw_lock(pthread_rwlock_t* l, bool wr, bool try_only)
{
   RtScope rs;
   ++g_res.events; ++g_res.mutex_locks;
   for (;;) {
      Sync& s = sync_of((uintptr_t)l);
      const bool busy = wr ? (s.owner != -1 || s.readers > 0) : (s.owner != -1);
      if (!busy) { if (wr) s.owner = g_cur; else ++s.readers; acquire(s); break; }
      if (try_only) return EBUSY;
      ++g_res.mutex_waits;
      block_on((uintptr_t)l);
   }
   sched_point(false);
   return 0;
}
int __wrap_pthread_rwlock_rdlock(pthread_rwlock_t* l) { return in_task() ? rw_lock(l, false, false) : __real_pthread_rwlock_rdlock(l); }
int __wrap_pthread_rwlock_wrlock(pthread_rwlock_t* l) { return in_task() ? rw_lock(l, true, false) : __real_pthread_rwlock_wrlock(l); }
int __wrap_pthread_rwlock_tryrdlock(pthread_rwlock_t* l) { return in_task() ? rw_lock(l, false, true) : __real_pthread_rwlock_tryrdlock(l); }
int __wrap_pthread_rwlock_trywrlock(pthread_rwlock_t* l) { return in_task() ? rw_lock(l, true, true) : __real_pthread_rwlock_trywrlock(l); }
int __wrap_pthread_rwlock_unlock(pthread_rwlock_t* l)
{
   if (!in_task()) return __real_pthread_rwlock_unlock(l);
   RtScope rs;
   ++g_res.events;
   Sync& s = sync_of((uintptr_t)l);
   release(s);
   if (s.owner == g_cur) s.owner = -1; else if (s.readers > 0) --s.readers;
   wake_waiters((uintptr_t)l);
   sched_point(false);
   return 0;
}
// pthread_once / std::call_once
int __wrap_pthread_once(pthread_once_t* o, void (*fn)(void))
{
   if (!in_task()) return __real_pthread_once(o, fn);
   RtScope rs;
   ++g_res.events; ++g_res.once_calls;
   for (;;) {
      Sync& s = sync_of((uintptr_t)o);
      if (s.state == 2) { acquire(s); break; }
      if (s.state == 0) {
         s.state = 1; s.owner = g_cur;
         sched_point(false);
         tl_in_rt = false;
         fn();
         tl_in_rt = true;
         Sync& s2 = sync_of((uintptr_t)o);
         s2.state = 2; s2.owner = -1; release(s2); wake_waiters((uintptr_t)o);
         break;
      }
      block_on((uintptr_t)o);
   }
   sched_point(false);
   return 0;
}
// function-local statics
int __wrap___cxa_guard_acquire(long long* g)
{
   if (!in_task()) return __real___cxa_guard_acquire(g);
   RtScope rs;
   ++g_res.events; ++g_res.guard_acquires;
   for (;;) {
      Sync& s = sync_of((uintptr_t)g);
      if (*(volatile char*)g != 0) { acquire(s); sched_point(false); return 0; }
      if (s.state == 0) { s.state = 1; s.owner = g_cur; sched_point(false); return 1; }
      ++g_res.guard_waits;
      block_on((uintptr_t)g);
   }
}
void __wrap___cxa_guard_release(long long* g)
{
   if (!in_task()) { __real___cxa_guard_release(g); return; }
   RtScope rs;
   ++g_res.events;
   Sync& s = sync_of((uintptr_t)g);
   *(volatile char*)g = 1;
   s.state = 0; s.owner = -1; release(s); wake_waiters((uintptr_t)g);
   sched_point(false);
}
void __wrap___cxa_guard_abort(long long* g)
{
   if (!in_task()) { __real___cxa_guard_abort(g); return; }
   RtScope rs;
   Sync& s = sync_of((uintptr_t)g);
   s.state = 0; s.owner = -1; wake_waiters((uintptr_t)g);
}
// unsupported synchronisation: recognised so that the run can be discarded, then passed through
int __wrap_pthread_cond_wait(pthread_cond_t* c, pthread_mutex_t* m) { if (in_task()) ++g_res.unsupported_sync; return __real_pthread_cond_wait(c, m); }
int __wrap_pthread_cond_timedwait(pthread_cond_t* c, pthread_mutex_t* m, const struct timespec* t) { if (in_task()) ++g_res.unsupported_sync; return __real_pthread_cond_timedwait(c, m, t); }
int __wrap_pthread_cond_signal(pthread_cond_t* c) { if (in_task()) ++g_res.unsupported_sync; return __real_pthread_cond_signal(c); }
int __wrap_pthread_cond_broadcast(pthread_cond_t* c) { if (in_task()) ++g_res.unsupported_sync; return __real_pthread_cond_broadcast(c); }
int __wrap_pthread_barrier_wait(pthread_barrier_t* b) { if (in_task()) ++g_res.unsupported_sync; return __real_pthread_barrier_wait(b); }
int __wrap_sem_wait(sem_t* s) { if (in_task()) ++g_res.unsupported_sync; return __real_sem_wait(s); }
int __wrap_sem_post(sem_t* s) { if (in_task()) ++g_res.unsupported_sync; return __real_sem_post(s); }
int __wrap_sem_trywait(sem_t* s) { if (in_task()) ++g_res.unsupported_sync; return __real_sem_trywait(s); }
int __wrap_sem_timedwait(sem_t* s, const struct timespec* t) { if (in_task()) ++g_res.unsupported_sync; return __real_sem_timedwait(s, t); }
int __wrap_sem_init(sem_t* s, int a, unsigned b) { return __real_sem_init(s, a, b); }
int __wrap_sem_destroy(sem_t* s) { return __real_sem_destroy(s); }
int __wrap_pthread_create(pthread_t* t, const pthread_attr_t* a, void* (*f)(void*), void* arg) { if (in_task()) { ++g_res.threads_created_by_code; ++g_res.unsupported_sync; } return __real_pthread_create(t, a, f, arg); }
int __wrap_pthread_join(pthread_t t, void** r) { return __real_pthread_join(t, r); }

// ---- clocks and randomness: logical inside a simulation
time_t __wrap_time(time_t* t) { if (!in_task()) return __real_time(t); ++g_res.clock_reads; const time_t v = (time_t)(1700000000 + g_res.events / 1000000); if (t) *t = v; return v; }
int __wrap_clock_gettime(clockid_t c, struct timespec* ts) { if (!in_task()) return __real_clock_gettime(c, ts); ++g_res.clock_reads; if (ts) { ts->tv_sec = 1700000000 + (time_t)(g_res.events / 1000000); ts->tv_nsec = (long)(g_res.events % 1000000) * 1000; } return 0; }
int __wrap_gettimeofday(struct timeval* tv, void* z) { if (!in_task()) return __real_gettimeofday(tv, z); ++g_res.clock_reads; if (tv) { tv->tv_sec = 1700000000 + (time_t)(g_res.events / 1000000); tv->tv_usec = (long)(g_res.events % 1000000); } return 0; }
int __wrap_rand(void) { if (!in_task()) return __real_rand(); ++g_res.random_reads; return (int)(g_rng.next() & 0x7fffffff); }
long __wrap_random(void) { if (!in_task()) return __real_random(); ++g_res.random_reads; return (long)(g_rng.next() & 0x7fffffff); }
void __wrap_srand(unsigned s) { if (!in_task()) __real_srand(s); }

} // extern "C"
