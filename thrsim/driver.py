"""C19 driver: builds thrsim (library compiled with -fsanitize=thread call-outs, linked against
our own runtime instead of libtsan) and runs seeded schedules."""
import json
import os
import struct
import time

import build
import orch

VERIF = build.VERIF
HERE = os.path.join(VERIF, "thrsim")
PROP = "C19"
ENV = {}
RUN = os.path.join(build.BUILD, "run")

WRAPS = ("sem_wait sem_post sem_init sem_destroy sem_trywait sem_timedwait pthread_create pthread_join pthread_mutex_lock "
         "pthread_mutex_trylock pthread_mutex_unlock pthread_rwlock_rdlock pthread_rwlock_wrlock pthread_rwlock_unlock "
         "pthread_rwlock_tryrdlock pthread_rwlock_trywrlock pthread_once pthread_cond_wait pthread_cond_timedwait "
         "pthread_cond_signal pthread_cond_broadcast pthread_barrier_wait __cxa_guard_acquire __cxa_guard_release "
         "__cxa_guard_abort memcpy memmove memset time clock_gettime gettimeofday rand random srand").split()


def build_engine():
    objs = build.lib_objects("tsanhooks")
    iflags = build.VARIANTS["tsanhooks"] + build.INCLUDES
    pflags = ["-std=c++14", "-w", "-O2", "-g1", "-fno-omit-frame-pointer"] + build.INCLUDES
    rt, wl, op = build.compile_many([(os.path.join(HERE, "rt.cpp"), pflags, ""), (os.path.join(HERE, "workload.cpp"), pflags, ""),
                                     (os.path.join(HERE, "ops.cpp"), iflags, "")])
    return build.link([rt, wl, op] + objs, os.path.join(build.BIN, "thrsim"), ["-no-pie", "-pthread"] + ["-Wl,--wrap=" + w for w in WRAPS])


def build_l2():
    """layer L2: same objects, real threads, linked against the real libtsan (cross-validation sample)"""
    objs = build.lib_objects("tsanhooks")
    iflags = build.VARIANTS["tsanhooks"] + build.INCLUDES
    pflags = ["-std=c++14", "-w", "-O2", "-g1", "-fno-omit-frame-pointer"] + build.INCLUDES
    rt, wl, op = build.compile_many([(os.path.join(HERE, "rt_real.cpp"), pflags, ""), (os.path.join(HERE, "workload.cpp"), pflags, ""),
                                     (os.path.join(HERE, "ops.cpp"), iflags, "")])
    return build.link([rt, wl, op] + objs, os.path.join(build.BIN, "thrsim_tsan"), ["-fsanitize=thread", "-pthread"])


def l2_exec(l2bin, manifest, plan, tag=""):
    """one execution of a plan with real threads under ThreadSanitizer -> (signature or '', stderr tail)"""
    import subprocess
    import tempfile
    os.makedirs(RUN, exist_ok=True)
    fd, pf = tempfile.mkstemp(prefix="l2plan-", suffix=".txt", dir=RUN)
    with os.fdopen(fd, "w") as f:
        f.write("\n".join(plan) + "\n")
    env = dict(os.environ, TSAN_OPTIONS="exitcode=66 halt_on_error=1 second_deadlock_stack=1")
    try:
        p = subprocess.run([l2bin, "", manifest, "--exec-one", pf], stdout=subprocess.PIPE, stderr=subprocess.PIPE, env=env, timeout=600)
        rc, out, err = p.returncode, p.stdout.decode(errors="replace"), p.stderr.decode(errors="replace")
    except subprocess.TimeoutExpired:
        rc, out, err = None, "", "timeout"
    finally:
        try:
            os.unlink(pf)
        except OSError:
            pass
    if rc == 66 or "ThreadSanitizer" in err:
        kind = "data_race" if "data race" in err else "report"
        fn = ""
        for l in err.splitlines():
            l = l.strip()
            if l.startswith("#0 "):
                fn = l.split()[1].split("(")[0]
                break
        return "l2:tsan:%s:%s" % (kind, fn or "?"), err[-4000:]
    if rc is None:
        return "l2:hang", err
    if rc != 0:
        return "l2:death:%s" % orch.cause_of(rc), err[-3000:]
    sig = [l[2:] for l in out.splitlines() if l.startswith("S ")]
    if sig and sig[0] != "OK":
        return "l2:" + sig[0], ""
    return "", ""


def corpus_manifest():
    from clisim import driver as cd
    return cd.corpus_manifest()


def distinct_interleavings(seen=None):
    """merge the 8-byte interleaving hashes the workers appended to <progress>.ih into `seen`"""
    if seen is None:
        seen = set()
    for f in os.listdir(RUN):
        if f.startswith("thrsim-") and f.endswith(".ih") and ("-%d-" % os.getpid()) in f:  # only this check's own workers
            p = os.path.join(RUN, f)
            try:
                b = open(p, "rb").read()
                for (h,) in struct.iter_unpack("<Q", b[:len(b) // 8 * 8]):
                    seen.add(h)
                os.unlink(p)
            except OSError:
                pass
    return len(seen)


def main(a):
    t0 = time.time()
    binary = build_engine()
    t_build = time.time() - t0
    manifest, ncorpus = corpus_manifest()
    nw = a.workers or min(16, os.cpu_count() or 8)
    args = [manifest]
    try:
        if a.replay:
            rep = json.load(open(a.replay))
            if rep.get("engine") == "thrsim-l2":
                # real threads: not deterministic, a report may need several executions to show again
                l2bin = build_l2()
                got = ""
                for attempt in range(40):
                    got, err = l2_exec(l2bin, manifest, rep["ops"])
                    if got == rep.get("signature"):
                        break
                print("replay %s: expected %s, got %s after %d execution(s)" % (a.replay, rep.get("signature"), got, attempt + 1))
                if got == rep.get("signature"):
                    print("VIOLATION property=%s replay=%s" % (PROP, a.replay))
                    return 1
                return 0
            r = orch.exec_plan(binary, rep["ops"], ENV, args=args, timeout=900)
            print("replay %s: expected %s, got %s" % (a.replay, rep.get("signature"), r["sig"]))
            for d in r["detail"] + r["trace"][:6]:
                print("  " + d[:400])
            if rep.get("hash") and r["sig"] == rep.get("signature") and r["hash"] != rep.get("hash"):
                print("  note: event-log hash differs from the recorded one (%s vs %s): the tree or the toolchain changed since it was recorded" % (r["hash"], rep.get("hash")))
            if orch.same_violation(r["sig"], rep.get("signature")):
                print("VIOLATION property=%s replay=%s" % (PROP, a.replay))
                return 1
            return 0

        for f in os.listdir(RUN):
            if f.startswith("thrsim-") and f.endswith(".ih") and ("-%d-" % os.getpid()) in f:
                try:
                    os.unlink(os.path.join(RUN, f))
                except OSError:
                    pass
        orch.clean_replays(PROP)
        thorough = a.tier == "thorough"
        ih_seen = set()
        t1 = time.time()
        if thorough:
            deadline = time.time() + 60 * (a.minutes if a.minutes is not None else 30)
            rnd = {"stats": {}, "candidates": [], "hashes": {}, "executed": 0, "deaths": 0, "notes": []}
            first = 0
            step = 400 * nw
            while time.time() < deadline and len(rnd["candidates"]) < 500:
                part = orch.run_batch(binary, "RUNS", a.seed, first, step, nw, ENV, chunk=10, deadline=deadline, args=args, stall=300)
                first += step
                orch.merge_stats(rnd["stats"], part["stats"])
                rnd["candidates"] += part["candidates"]
                rnd["hashes"].update(part["hashes"])
                rnd["executed"] += part["executed"]
                rnd["deaths"] += part["deaths"]
                if part.get("stopped_early"):
                    rnd["stopped_early"] = True
                    break
                distinct_interleavings(ih_seen)
        else:
            rnd = orch.run_batch(binary, "RUNS", a.seed, 0, 1500, nw, ENV, chunk=10, args=args, stall=300)
        t_rand = time.time() - t1
        ndistinct = distinct_interleavings(ih_seen)

        # determinism gate: the first runs again in other processes with another worker count
        ngate = 96 if not thorough else 2000
        g = orch.run_batch(binary, "RUNS", a.seed, 0, ngate, 3 if not thorough else nw, ENV, chunk=16, args=args, stall=300)
        distinct_interleavings()
        harness_errors = []
        mism = [r for r, h in g["hashes"].items() if r in rnd["hashes"] and rnd["hashes"][r] != h]
        compared = len([r for r in g["hashes"] if r in rnd["hashes"]])
        if mism:
            harness_errors.append("event-log hash (events, schedule trace, results) differs between two executions of runs %s" % mism[:5])
        if sorted((c["run"], c["sig"]) for c in g["candidates"]) != sorted((c["run"], c["sig"]) for c in rnd["candidates"] if c["run"] < ngate) and not (g["stopped_early"] or rnd.get("stopped_early")):
            harness_errors.append("candidate set differs between two executions of the first %d runs" % ngate)

        cands = [dict(c, kind="random", seed=a.seed) for c in rnd["candidates"]]

        def get_plan(c):
            return orch.dump_plan(binary, "DUMP %d %d" % (c["seed"], c["run"]), ENV, args=args)

        def header(c):
            return None

        # plans carry their own "# sched" header line as first op: keep it through minimisation
        def keep_header(ops, test):
            return ops

        viol, known_hits, herr = orch.process_candidates(PROP, "thrsim", binary, cands, get_plan, ENV, args=args, min_budget=120, exec_timeout=900,
                                                         pin_first=True)
        harness_errors += herr

        # ---- layer L2: a sample of the same plans with REAL concurrent threads under the real ThreadSanitizer
        # (independent race detector, also sees what its interceptors catch inside uninstrumented libstdc++/libc);
        # the bitwise oracles of the workload run there as well.  Cross-validation only: real threads are not
        # deterministic, so a report counts only if it shows again when the same plan is executed again.
        import concurrent.futures as cf
        t1 = time.time()
        l2stats = {"plans": 0, "executions": 0, "reports": 0, "reports_reproduced": 0, "reports_not_reproduced": 0}
        l2bin = None
        try:
            l2bin = build_l2()
        except Exception as e:  # libtsan missing or unusable here: the layer is skipped, the deciding engine is unaffected
            l2stats["skipped"] = str(e).splitlines()[0][:200]
        if l2bin and not orch.saturated():
            nl2 = 96 if not thorough else 3000
            reps = 3 if not thorough else 2

            def l2_job(k):
                plan = orch.dump_plan(binary, "DUMP %d %d" % (a.seed, 5000000 + k), ENV, args=args)
                res = []
                for _ in range(reps):
                    res.append(l2_exec(l2bin, manifest, plan))
                return k, plan, res
            found = {}
            with cf.ThreadPoolExecutor(max_workers=nw) as ex:
                for k, plan, res in ex.map(l2_job, range(nl2)):
                    l2stats["plans"] += 1
                    l2stats["executions"] += len(res)
                    for sig, err in res:
                        if sig:
                            l2stats["reports"] += 1
                            found.setdefault(sig, (k, plan, err))
            probe = l2_exec(l2bin, manifest, ["# sched random 200 1 1 0", "shared 0 thdm 7", "task 0 ev calculate_amu_2loop s 0", "task 1 ev calculate_amu_2loop s 0"])
            l2stats["tsan_runtime_usable"] = probe[0] == ""
            if probe[0]:
                l2stats["skipped"] = "probe plan failed under ThreadSanitizer: " + probe[0]
                found = {}
            for sig, (k, plan, err) in sorted(found.items())[:6]:
                again = 0
                for _ in range(20):
                    s2, e2 = l2_exec(l2bin, manifest, plan)
                    if s2 == sig:
                        again += 1
                        break
                if not again:
                    l2stats["reports_not_reproduced"] += 1
                    print("NOTE real-thread layer: %s on plan %d did not show again in 20 executions (not counted)" % (sig, 5000000 + k))
                    continue
                l2stats["reports_reproduced"] += 1
                if any(v["sig"].split(":")[0] in ("race", "mismatch", "modified", "death") for v in viol) and len(viol) >= 3:
                    continue  # the deciding engine already reports this tree; keep the output short
                # minimise by dropping ops while the report still shows within 6 executions
                def shows(ops):
                    for _ in range(6):
                        if l2_exec(l2bin, manifest, ops)[0] == sig:
                            return True
                    return False
                small, ncalls = orch.ddmin(plan[1:], lambda ops: shows([plan[0]] + ops), budget=40)
                small = [plan[0]] + small
                rdir = os.path.join(orch.OUT, "replays", PROP)
                os.makedirs(rdir, exist_ok=True)
                safe = "".join(ch if ch.isalnum() or ch in "-_." else "_" for ch in sig)[:100]
                path = os.path.join(rdir, "%s-run%d.json" % (safe, 5000000 + k))
                json.dump({"property": PROP, "engine": "thrsim-l2", "signature": sig, "run_index": 5000000 + k, "seed": a.seed, "ops": small, "original_length": len(plan),
                           "note": "real threads under ThreadSanitizer: not deterministic, the replay command executes the plan up to 40 times", "stderr": err}, open(path, "w"), indent=1)
                viol.append({"sig": sig, "path": path, "ops": len(small), "from_ops": len(plan), "count": 1})
        t_l2 = time.time() - t1

        counters = rnd["stats"].get("counters", {})
        cover = rnd["stats"].get("cover", {})
        wall = time.time() - t0
        samples = [{"kind": "seeded workload + schedule", "seed": a.seed, "run": k, "ops": orch.dump_plan(binary, "DUMP %d %d" % (a.seed, k), ENV, args=args)} for k in (0, 1)]
        ev = {
            "property_id": PROP, "tier": a.tier, "seed": a.seed, "level": "exploration", "wall_s": round(wall, 2), "violations": len(viol),
            "coverage": {
                "evaluations": rnd["executed"],
                "distinct_nontrivial": ndistinct,
                "rule": "evaluations = simulated concurrent runs (2..16 caller threads, 3..12 operations each, 1..3 shared models), each followed by two sequential "
                        "reference executions. distinct_nontrivial = number of distinct interleaving hashes (FNV over the (task, operation index) sequence at every "
                        "access to a memory word touched by >= 2 tasks) among runs with >= 2 tasks and >= 1 preemption inside an operation",
                "samples": samples,
                "exhaustive": False,
                "simulated_time": {"unit": "instrumented memory accesses and synchronisation operations (logical clock)", "total": counters.get("events", 0),
                                   "sequential_reference_events": counters.get("sequential_events", 0)},
                "runs_per_hour": int(rnd["executed"] / max(t_rand, 1e-9) * 3600),
                "operations_executed": counters.get("ops", 0),
                "context_switches": counters.get("switches", 0),
                "preemptions_inside_an_operation": counters.get("preemptions_inside_operation", 0),
                "switches_forced_right_after_write_to_shared_candidate": counters.get("conflict_switches", 0),
                "accesses_to_words_touched_by_two_or_more_tasks": counters.get("shared_accesses", 0),
                "strategies": {k[9:]: v for k, v in counters.items() if k.startswith("strategy_")},
                "tasks_histogram": {k[6:]: v for k, v in counters.items() if k.startswith("tasks_")},
                "simulated_sync": {k: counters.get(k, 0) for k in ("guard_acquires", "guard_waits", "mutex_locks", "mutex_waits", "once_calls", "atomic_ops", "clock_reads", "random_reads")},
                "runs_discarded_for_unsupported_sync": counters.get("discarded_unsupported_sync", 0),
                "reach_probes": {"what": "entries of rare-path functions by simulated tasks (calls / runs in which it was entered)",
                                 "calls": {k[6:]: v for k, v in counters.items() if k.startswith("probe_")},
                                 "runs": {k[10:]: v for k, v in counters.items() if k.startswith("proberuns_")}},
                "operation_coverage": cover,
                "fault_kinds": {"preemption inside a library call": counters.get("preemptions_inside_operation", 0),
                                "forced switch after write to shared-candidate memory": counters.get("conflict_switches", 0),
                                "exception path inside a task": sum(v for k, v in cover.items() if k.split("|")[2] not in ("value", "skipped"))},
                "determinism_gate": {"runs_compared": compared, "hash_mismatches": len(mism)},
                "worker_deaths": rnd["deaths"],
                "oracle_activity": {k[7:]: v for k, v in counters.items() if k.startswith("oracle_")},
                "layer_L2_real_threads_under_ThreadSanitizer": dict(l2stats, wall_s=round(t_l2, 1), what="a sample of seeded plans executed with real concurrent pthreads (randomised yields at operation boundaries), the same -fsanitize=thread library objects linked against the real libtsan; bitwise oracles of the workload active; cross-validation of the simulator's own happens-before detector, not the deciding step"),
                "real_vs_stub": {"real": ["every translation unit of libgm2calc from the working tree (compiled with -fsanitize=thread call-outs)", "libstdc++, libm, Eigen, Boost", "glibc malloc (interposed only to clear shadow state on free)"],
                                 "simulated": ["OS scheduler (one caller thread runs at a time; the seeded scheduler picks the next at every instrumented access)",
                                               "pthread mutex / rwlock / once, __cxa_guard_*, atomics (happens-before model)", "time/clock/rand sources (logical)"],
                                 "reference_model": "sequential execution of the same programs (program order, and reverse order or every call twice)"},
                "known_findings_seen": known_hits,
                "timing_s": {"build": round(t_build, 1), "runs": round(t_rand, 1)},
            },
            "assumptions": ["sequentially consistent interleavings of instrumented accesses only; a data-race-free verdict under the happens-before detector covers weak-memory executions",
                            "uninstrumented code (libstdc++.so, libm, malloc) executes atomically", "condition variables/semaphores/barriers are not modelled: such runs are discarded and counted"],
        }
        orch.write_evidence(PROP, ev)
        print("C19 thrsim: %d simulated runs, %d events, %d switches (%d inside operations), %d distinct interleavings, %.0f s" %
              (rnd["executed"], counters.get("events", 0), counters.get("switches", 0), counters.get("preemptions_inside_operation", 0), ndistinct, wall))
        for k in known_hits:
            print("KNOWN-FINDING: property=%s %s" % (PROP, k["what"]))
        for v in viol:
            print("VIOLATION property=%s replay=%s   (%s; %d ops, minimised from %d; %d occurrence(s))" % (PROP, v["path"], v["sig"], v["ops"], v["from_ops"], v["count"]))
        if harness_errors:
            for h in harness_errors:
                print("HARNESS-ERROR property=%s %s" % (PROP, h))
            return 2
        return 1 if viol else 0
    finally:
        try:
            os.unlink(manifest)
        except OSError:
            pass
