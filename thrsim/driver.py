"""C19 driver: builds thrsim (library compiled with -fsanitize=thread call-outs, linked against
our own runtime instead of libtsan) and runs seeded schedules."""
import json
import os
import struct
import time

import build
import orch

VERIF = build.VERIF
HERE = os.path.join(VERIF, "thrsim")
PROP = "C19"
ENV = {}
RUN = os.path.join(build.BUILD, "run")

WRAPS = ("sem_wait sem_post sem_init sem_destroy sem_trywait sem_timedwait pthread_create pthread_join pthread_mutex_lock "
         "pthread_mutex_trylock pthread_mutex_unlock pthread_rwlock_rdlock pthread_rwlock_wrlock pthread_rwlock_unlock "
         "pthread_rwlock_tryrdlock pthread_rwlock_trywrlock pthread_once pthread_cond_wait pthread_cond_timedwait "
         "pthread_cond_signal pthread_cond_broadcast pthread_barrier_wait __cxa_guard_acquire __cxa_guard_release "
         "__cxa_guard_abort memcpy memmove memset time clock_gettime gettimeofday rand random srand").split()


def build_engine():
    objs = build.lib_objects("tsanhooks")
    iflags = build.VARIANTS["tsanhooks"] + build.INCLUDES
    pflags = ["-std=c++14", "-w", "-O2", "-g1", "-fno-omit-frame-pointer"] + build.INCLUDES
    rt, wl, op = build.compile_many([(os.path.join(HERE, "rt.cpp"), pflags, ""), (os.path.join(HERE, "workload.cpp"), pflags, ""),
                                     (os.path.join(HERE, "ops.cpp"), iflags, "")])
    return build.link([rt, wl, op] + objs, os.path.join(build.BIN, "thrsim"), ["-no-pie", "-pthread"] + ["-Wl,--wrap=" + w for w in WRAPS])


def corpus_manifest():
    from clisim import driver as cd
    return cd.corpus_manifest()


def distinct_interleavings(seen=None):
    """merge the 8-byte interleaving hashes the workers appended to <progress>.ih into `seen`"""
    if seen is None:
        seen = set()
    for f in os.listdir(RUN):
        if f.startswith("thrsim-") and f.endswith(".ih") and ("-%d-" % os.getpid()) in f:  # only this check's own workers
            p = os.path.join(RUN, f)
            try:
                b = open(p, "rb").read()
                for (h,) in struct.iter_unpack("<Q", b[:len(b) // 8 * 8]):
                    seen.add(h)
                os.unlink(p)
            except OSError:
                pass
    return len(seen)


def main(a):
    t0 = time.time()
    binary = build_engine()
    t_build = time.time() - t0
    manifest, ncorpus = corpus_manifest()
    nw = a.workers or min(16, os.cpu_count() or 8)
    args = [manifest]
    try:
        if a.replay:
            rep = json.load(open(a.replay))
            r = orch.exec_plan(binary, rep["ops"], ENV, args=args, timeout=900)
            print("replay %s: expected %s, got %s" % (a.replay, rep.get("signature"), r["sig"]))
            for d in r["detail"] + r["trace"][:6]:
                print("  " + d[:400])
            if rep.get("hash") and r["sig"] == rep.get("signature") and r["hash"] != rep.get("hash"):
                print("  note: event-log hash differs from the recorded one (%s vs %s): the tree or the toolchain changed since it was recorded" % (r["hash"], rep.get("hash")))
            if r["sig"] == rep.get("signature"):
                print("VIOLATION property=%s replay=%s" % (PROP, a.replay))
                return 1
            return 0

        for f in os.listdir(RUN):
            if f.startswith("thrsim-") and f.endswith(".ih") and ("-%d-" % os.getpid()) in f:
                try:
                    os.unlink(os.path.join(RUN, f))
                except OSError:
                    pass
        orch.clean_replays(PROP)
        thorough = a.tier == "thorough"
        ih_seen = set()
        t1 = time.time()
        if thorough:
            deadline = time.time() + 60 * (a.minutes if a.minutes is not None else 30)
            rnd = {"stats": {}, "candidates": [], "hashes": {}, "executed": 0, "deaths": 0, "notes": []}
            first = 0
            step = 400 * nw
            while time.time() < deadline and len(rnd["candidates"]) < 500:
                part = orch.run_batch(binary, "RUNS", a.seed, first, step, nw, ENV, chunk=10, deadline=deadline, args=args, stall=300)
                first += step
                orch.merge_stats(rnd["stats"], part["stats"])
                rnd["candidates"] += part["candidates"]
                rnd["hashes"].update(part["hashes"])
                rnd["executed"] += part["executed"]
                rnd["deaths"] += part["deaths"]
                if part.get("stopped_early"):
                    rnd["stopped_early"] = True
                    break
                distinct_interleavings(ih_seen)
        else:
            rnd = orch.run_batch(binary, "RUNS", a.seed, 0, 1500, nw, ENV, chunk=10, args=args, stall=300)
        t_rand = time.time() - t1
        ndistinct = distinct_interleavings(ih_seen)

        # determinism gate: the first runs again in other processes with another worker count
        ngate = 96 if not thorough else 2000
        g = orch.run_batch(binary, "RUNS", a.seed, 0, ngate, 3 if not thorough else nw, ENV, chunk=16, args=args, stall=300)
        distinct_interleavings()
        harness_errors = []
        mism = [r for r, h in g["hashes"].items() if r in rnd["hashes"] and rnd["hashes"][r] != h]
        compared = len([r for r in g["hashes"] if r in rnd["hashes"]])
        if mism:
            harness_errors.append("event-log hash (events, schedule trace, results) differs between two executions of runs %s" % mism[:5])
        if sorted((c["run"], c["sig"]) for c in g["candidates"]) != sorted((c["run"], c["sig"]) for c in rnd["candidates"] if c["run"] < ngate) and not (g["stopped_early"] or rnd.get("stopped_early")):
            harness_errors.append("candidate set differs between two executions of the first %d runs" % ngate)

        cands = [dict(c, kind="random", seed=a.seed) for c in rnd["candidates"]]

        def get_plan(c):
            return orch.dump_plan(binary, "DUMP %d %d" % (c["seed"], c["run"]), ENV, args=args)

        def header(c):
            return None

        # plans carry their own "# sched" header line as first op: keep it through minimisation
        def keep_header(ops, test):
            return ops

        viol, known_hits, herr = orch.process_candidates(PROP, "thrsim", binary, cands, get_plan, ENV, args=args, min_budget=120, exec_timeout=900,
                                                         pin_first=True)
        harness_errors += herr

        counters = rnd["stats"].get("counters", {})
        cover = rnd["stats"].get("cover", {})
        wall = time.time() - t0
        samples = [{"kind": "seeded workload + schedule", "seed": a.seed, "run": k, "ops": orch.dump_plan(binary, "DUMP %d %d" % (a.seed, k), ENV, args=args)} for k in (0, 1)]
        ev = {
            "property_id": PROP, "tier": a.tier, "seed": a.seed, "level": "exploration", "wall_s": round(wall, 2), "violations": len(viol),
            "coverage": {
                "evaluations": rnd["executed"],
                "distinct_nontrivial": ndistinct,
                "rule": "evaluations = simulated concurrent runs (2..16 caller threads, 3..12 operations each, 1..3 shared models), each followed by two sequential "
                        "reference executions. distinct_nontrivial = number of distinct interleaving hashes (FNV over the (task, operation index) sequence at every "
                        "access to a memory word touched by >= 2 tasks) among runs with >= 2 tasks and >= 1 preemption inside an operation",
                "samples": samples,
                "exhaustive": False,
                "simulated_time": {"unit": "instrumented memory accesses and synchronisation operations (logical clock)", "total": counters.get("events", 0),
                                   "sequential_reference_events": counters.get("sequential_events", 0)},
                "runs_per_hour": int(rnd["executed"] / max(t_rand, 1e-9) * 3600),
                "operations_executed": counters.get("ops", 0),
                "context_switches": counters.get("switches", 0),
                "preemptions_inside_an_operation": counters.get("preemptions_inside_operation", 0),
                "switches_forced_right_after_write_to_shared_candidate": counters.get("conflict_switches", 0),
                "accesses_to_words_touched_by_two_or_more_tasks": counters.get("shared_accesses", 0),
                "strategies": {k[9:]: v for k, v in counters.items() if k.startswith("strategy_")},
                "tasks_histogram": {k[6:]: v for k, v in counters.items() if k.startswith("tasks_")},
                "simulated_sync": {k: counters.get(k, 0) for k in ("guard_acquires", "guard_waits", "mutex_locks", "mutex_waits", "once_calls", "atomic_ops", "clock_reads", "random_reads")},
                "runs_discarded_for_unsupported_sync": counters.get("discarded_unsupported_sync", 0),
                "reach_probes": {"what": "entries of rare-path functions by simulated tasks (calls / runs in which it was entered)",
                                 "calls": {k[6:]: v for k, v in counters.items() if k.startswith("probe_")},
                                 "runs": {k[10:]: v for k, v in counters.items() if k.startswith("proberuns_")}},
                "operation_coverage": cover,
                "fault_kinds": {"preemption inside a library call": counters.get("preemptions_inside_operation", 0),
                                "forced switch after write to shared-candidate memory": counters.get("conflict_switches", 0),
                                "exception path inside a task": sum(v for k, v in cover.items() if k.split("|")[2] not in ("value", "skipped"))},
                "determinism_gate": {"runs_compared": compared, "hash_mismatches": len(mism)},
                "worker_deaths": rnd["deaths"],
                "real_vs_stub": {"real": ["every translation unit of libgm2calc from the working tree (compiled with -fsanitize=thread call-outs)", "libstdc++, libm, Eigen, Boost", "glibc malloc (interposed only to clear shadow state on free)"],
                                 "simulated": ["OS scheduler (one caller thread runs at a time; the seeded scheduler picks the next at every instrumented access)",
                                               "pthread mutex / rwlock / once, __cxa_guard_*, atomics (happens-before model)", "time/clock/rand sources (logical)"],
                                 "reference_model": "sequential execution of the same programs (program order, and reverse order or every call twice)"},
                "known_findings_seen": known_hits,
                "timing_s": {"build": round(t_build, 1), "runs": round(t_rand, 1)},
            },
            "assumptions": ["sequentially consistent interleavings of instrumented accesses only; a data-race-free verdict under the happens-before detector covers weak-memory executions",
                            "uninstrumented code (libstdc++.so, libm, malloc) executes atomically", "condition variables/semaphores/barriers are not modelled: such runs are discarded and counted"],
        }
        orch.write_evidence(PROP, ev)
        print("C19 thrsim: %d simulated runs, %d events, %d switches (%d inside operations), %d distinct interleavings, %.0f s" %
              (rnd["executed"], counters.get("events", 0), counters.get("switches", 0), counters.get("preemptions_inside_operation", 0), ndistinct, wall))
        for k in known_hits:
            print("KNOWN-FINDING: property=%s %s" % (PROP, k["what"]))
        for v in viol:
            print("VIOLATION property=%s replay=%s   (%s; %d ops, minimised from %d; %d occurrence(s))" % (PROP, v["path"], v["sig"], v["ops"], v["from_ops"], v["count"]))
        if harness_errors:
            for h in harness_errors:
                print("HARNESS-ERROR property=%s %s" % (PROP, h))
            return 2
        return 1 if viol else 0
    finally:
        try:
            os.unlink(manifest)
        except OSError:
            pass
