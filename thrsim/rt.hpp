// thrsim runtime interface: deterministic thread-schedule simulator with a
// happens-before race detector, fed by GCC's -fsanitize=thread call-outs.
#ifndef THRSIM_RT_HPP
#define THRSIM_RT_HPP

#include <cstdint>
#include <string>
#include <utility>
#include <vector>

namespace thrsim {

constexpr int MAX_TASKS = 16;

enum Strategy { S_RANDOM = 0, S_PCT = 1, S_RR = 2, S_CONFLICT = 3, S_SERIAL = 4, N_STRATEGIES = 5 };
inline const char* strategy_name(int s)
{
   static const char* n[] = {"random", "pct", "rr", "conflict", "serial"};
   return (s >= 0 && s < N_STRATEGIES) ? n[s] : "?";
}

struct Config {
   int strategy = S_RANDOM;
   double quantum = 2000;        ///< mean (random/conflict) or fixed (rr) number of events between decisions
   int pct_depth = 1;            ///< number of priority change points (pct)
   uint64_t seed = 1;            ///< scheduler seed
   uint64_t est_events = 100000; ///< rough length of the run (placement of pct change points)
   uint64_t max_events = 50000000; ///< livelock bound
};

struct Race {
   uintptr_t addr; unsigned size;
   int task_a, op_a; uintptr_t pc_a; bool write_a;   ///< earlier access
   int task_b, op_b; uintptr_t pc_b; bool write_b;   ///< current access
   std::string where;   ///< data symbol+offset, or "heap"
   std::string fn_a, fn_b; ///< functions containing the two accesses
   std::vector<uintptr_t> stack_b;
};

struct Result {
   uint64_t events = 0, switches = 0, decisions = 0;
   uint64_t preempt_in_op = 0;       ///< switches that happened inside an operation (not at its boundary)
   uint64_t conflict_switches = 0;   ///< switches forced right after a write to a shared-candidate address
   uint64_t shared_accesses = 0;     ///< accesses to words touched by >= 2 tasks
   uint64_t guard_acquires = 0, guard_waits = 0, mutex_locks = 0, mutex_waits = 0, once_calls = 0, atomic_ops = 0;
   uint64_t unsupported_sync = 0;    ///< condition variables, semaphores, barriers seen: run is discarded
   uint64_t threads_created_by_code = 0;
   uint64_t clock_reads = 0, random_reads = 0;
   uint64_t trace_hash = 0;          ///< hash over the (task, events) decision list
   uint64_t interleave_hash = 0;     ///< hash over (task, op) at every access to memory touched by >= 2 tasks
   bool deadlock = false, livelock = false;
   std::vector<Race> races;          ///< distinct races (by pc pair), at most 16
   std::vector<std::pair<int, uint64_t>> trace; ///< schedule: (task, events run) segments
   std::vector<uint64_t> probe_hits;  ///< per reach probe: entries of that function by simulated tasks
};

/// contents of fresh heap blocks from now on (0..255), -1 = whatever the allocator returns
void set_malloc_fill(int byte);
/// one-time initialisation (symbol table of the executable)
void init();
/// run fn(task, arg) in `n` simulated caller threads under the seeded scheduler; returns when all are done
void run_tasks(int n, void (*fn)(int, void*), void* arg, const Config& cfg);
/// called by a task between two operations of its program (yield point; records the op index for reports)
void op_boundary(int op_index);
const Result& result();
/// events counted on the calling thread while no simulation is active (sequential calibration)
uint64_t sequential_events();
void reset_sequential_events();
/// reach probes: address ranges [lo, hi) of functions of interest (entries by simulated tasks are counted)
void set_probes(const std::vector<std::pair<uintptr_t, uintptr_t>>& ranges);
/// address ranges of all functions whose demangled name contains `substring`
std::vector<std::pair<uintptr_t, uintptr_t>> find_functions(const std::string& substring);
/// symbol lookup (function or object containing addr), demangled; "" if unknown
std::string symbolize(uintptr_t addr);

} // namespace thrsim

#endif
