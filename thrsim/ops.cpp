// see ops.hpp -- compiled with -fsanitize=thread call-outs
#include "ops.hpp"

#include "gm2calc/MSSMNoFV_onshell.hpp"
#include "gm2calc/THDM.hpp"
#include "gm2calc/SM.hpp"
#include "gm2calc/gm2_1loop.hpp"
#include "gm2calc/gm2_2loop.hpp"
#include "gm2calc/gm2_uncertainty.hpp"
#include "gm2calc/gm2_error.hpp"
#include "gm2_uncertainty_helpers.hpp"
#include "MSSMNoFV/gm2_1loop_helpers.hpp"
#include "MSSMNoFV/gm2_2loop_helpers.hpp"
#include "gm2_config_options.hpp"
#include "gm2_mf.hpp"
#include "gm2_ffunctions.hpp"
#include "gm2_dilog.hpp"
#include "gm2_slha_io.hpp"

// the C interface is used from threads as well (it forwards to the same functions)
#include "gm2calc/MSSMNoFV_onshell.h"
#include "gm2calc/THDM.h"
#include "gm2calc/SM.h"
#include "gm2calc/gm2_error.h"
#include "gm2calc/gm2_1loop.h"
#include "gm2calc/gm2_2loop.h"
#include "gm2calc/gm2_uncertainty.h"

#include <cmath>
#include <limits>
#include <cstring>
#include <sstream>

namespace ops {

using gm2calc::MSSMNoFV_onshell;
using gm2calc::THDM;

MSSMNoFV_onshell* make_mssm(const MssmPoint& p)
{
   std::unique_ptr<MSSMNoFV_onshell> m(new MSSMNoFV_onshell());
   const double pi = 3.14159265358979323846;
   m->do_force_output(p.force_output);
   m->set_alpha_MZ(p.alpha_MZ != 0 ? p.alpha_MZ : 0.0077552);
   m->set_alpha_thompson(0.00729735);
   m->set_g3(std::sqrt(4 * pi * 0.1184));
   m->get_physical().MFt = 173.34;
   m->get_physical().MFb = 4.18;
   m->get_physical().MFm = 0.1056583715;
   m->get_physical().MFtau = 1.777;
   m->get_physical().MVWm = p.MW;
   m->get_physical().MVZ = p.MZ;
   if (p.mode == 1) {
      const double F = p.pole_scale;
      m->get_physical().MSvmL = 5.18860573e+02 * F;
      m->get_physical().MSm(0) = 5.05095249e+02 * F;
      m->get_physical().MSm(1) = 5.25187016e+02 * F;
      m->get_physical().MChi(0) = 2.01611468e+02 * F;
      m->get_physical().MChi(1) = 4.10040273e+02 * F;
      m->get_physical().MChi(2) = -5.16529941e+02 * F;
      m->get_physical().MChi(3) = 5.45628749e+02 * F;
      m->get_physical().MCha(0) = 4.09989890e+02 * F;
      m->get_physical().MCha(1) = 5.46057190e+02 * F;
   }
   m->set_MA0(p.MA);
   m->set_TB(p.TB);
   m->set_Mu(p.Mu);
   m->set_MassB(p.M1);
   m->set_MassWB(p.M2);
   m->set_MassG(p.M3);
   for (int i = 0; i < 3; ++i) {
      m->set_mq2(i, i, p.mq2[i]); m->set_mu2(i, i, p.mu2[i]); m->set_md2(i, i, p.md2[i]);
      m->set_ml2(i, i, p.ml2[i]); m->set_me2(i, i, p.me2[i]);
   }
   m->set_Au(2, 2, p.Au33); m->set_Ad(2, 2, p.Ad33); m->set_Ae(1, 1, p.Ae22); m->set_Ae(2, 2, p.Ae33);
   m->set_scale(p.scale);
   if (p.mode == 0) m->calculate_masses();
   else m->convert_to_onshell(p.precision, p.max_iter);
   return m.release();
}

THDM* make_thdm(const ThdmPoint& p)
{
   gm2calc::SM sm;
   sm.set_alpha_em_mz(p.alpha_em_mz);
   sm.set_mu(2, p.mt); sm.set_mu(1, 1.28); sm.set_md(2, p.mb); sm.set_ml(2, p.mtau); sm.set_mh(p.mhSM);
   gm2calc::thdm::Config cfg;
   cfg.force_output = p.force_output; cfg.running_couplings = p.running_couplings;
   Eigen::Matrix<double, 3, 3> D;
   D << 0.1, 0.2, 0.3, 0.4, 0.5, 0.6, 0.7, 0.8, 0.9;
   if (p.gauge) {
      gm2calc::thdm::Gauge_basis b;
      b.yukawa_type = gm2calc::thdm::int_to_cpp_yukawa_type(p.yukawa_type);
      for (int i = 0; i < 7; ++i) b.lambda(i) = p.lambda[i];
      b.tan_beta = p.tb; b.m122 = p.m122; b.zeta_u = p.zeta_u; b.zeta_d = p.zeta_d; b.zeta_l = p.zeta_l;
      b.Delta_u = p.delta_scale * D; b.Delta_d = 2 * p.delta_scale * D; b.Delta_l = 3 * p.delta_scale * D;
      b.Pi_u = p.pi_scale * D; b.Pi_d = 2 * p.pi_scale * D; b.Pi_l = 3 * p.pi_scale * D;
      return new THDM(b, sm, cfg);
   }
   gm2calc::thdm::Mass_basis b;
   b.yukawa_type = gm2calc::thdm::int_to_cpp_yukawa_type(p.yukawa_type);
   b.mh = p.mh; b.mH = p.mH; b.mA = p.mA; b.mHp = p.mHp; b.sin_beta_minus_alpha = p.sba; b.lambda_6 = p.l6; b.lambda_7 = p.l7;
   b.tan_beta = p.tb; b.m122 = p.m122; b.zeta_u = p.zeta_u; b.zeta_d = p.zeta_d; b.zeta_l = p.zeta_l;
   b.Delta_u = p.delta_scale * D; b.Delta_d = 2 * p.delta_scale * D; b.Delta_l = 3 * p.delta_scale * D;
   b.Pi_u = p.pi_scale * D; b.Pi_d = 2 * p.pi_scale * D; b.Pi_l = 3 * p.pi_scale * D;
   return new THDM(b, sm, cfg);
}

void make_from_slha(const std::string& text, const std::string& type, MSSMNoFV_onshell** mo, THDM** to)
{
   *mo = nullptr; *to = nullptr;
   std::istringstream is(text);
   gm2calc::GM2_slha_io io;
   io.read_from_stream(is);
   gm2calc::Config_options opt;
   io.fill(opt);
   if (type == "thdm") {
      gm2calc::SM sm; gm2calc::thdm::Mass_basis mb; gm2calc::thdm::Gauge_basis gb;
      io.fill(sm); io.fill(mb); io.fill(gb);
      gm2calc::thdm::Config cfg; cfg.force_output = opt.force_output; cfg.running_couplings = opt.running_couplings;
      if (gb.lambda.head<5>().cwiseAbs().maxCoeff() == 0) *to = new THDM(mb, sm, cfg);
      else *to = new THDM(gb, sm, cfg);
      return;
   }
   std::unique_ptr<MSSMNoFV_onshell> m(new MSSMNoFV_onshell());
   m->do_force_output(opt.force_output);
   if (type == "slha") { io.fill_slha(*m); m->convert_to_onshell(); }
   else { io.fill_gm2calc(*m); m->calculate_masses(); }
   *mo = m.release();
}

namespace {
void throw_for(gm2calc_error e)
{
   switch (e) {
   case gm2calc_NoError: return;
   case gm2calc_InvalidInput: throw gm2calc::EInvalidInput("C interface: invalid input");
   case gm2calc_PhysicalProblem: throw gm2calc::EPhysicalProblem("C interface: physical problem");
   default: throw gm2calc::ESetupError("C interface: unknown error");
   }
}
} // namespace

MSSMNoFV_onshell* make_mssm_c(const MssmPoint& p)
{
   ::MSSMNoFV_onshell* h = gm2calc_mssmnofv_new();
   struct Guard { ::MSSMNoFV_onshell* h; ~Guard() { if (h) gm2calc_mssmnofv_free(h); } } g{h};
   const double pi = 3.14159265358979323846;
   gm2calc_mssmnofv_set_alpha_MZ(h, p.alpha_MZ != 0 ? p.alpha_MZ : 0.0077552); gm2calc_mssmnofv_set_alpha_thompson(h, 0.00729735); gm2calc_mssmnofv_set_g3(h, std::sqrt(4 * pi * 0.1184));
   gm2calc_mssmnofv_set_MT_pole(h, 173.34); gm2calc_mssmnofv_set_MB_running(h, 4.18); gm2calc_mssmnofv_set_MM_pole(h, 0.1056583715); gm2calc_mssmnofv_set_ML_pole(h, 1.777);
   gm2calc_mssmnofv_set_MW_pole(h, p.MW); gm2calc_mssmnofv_set_MZ_pole(h, p.MZ);
   if (p.mode == 1) {
      const double F = p.pole_scale;
      gm2calc_mssmnofv_set_MSvmL_pole(h, 5.18860573e+02 * F); gm2calc_mssmnofv_set_MSm_pole(h, 0, 5.05095249e+02 * F); gm2calc_mssmnofv_set_MSm_pole(h, 1, 5.25187016e+02 * F);
      gm2calc_mssmnofv_set_MChi_pole(h, 0, 2.01611468e+02 * F); gm2calc_mssmnofv_set_MChi_pole(h, 1, 4.10040273e+02 * F); gm2calc_mssmnofv_set_MChi_pole(h, 2, -5.16529941e+02 * F); gm2calc_mssmnofv_set_MChi_pole(h, 3, 5.45628749e+02 * F);
      gm2calc_mssmnofv_set_MCha_pole(h, 0, 4.09989890e+02 * F); gm2calc_mssmnofv_set_MCha_pole(h, 1, 5.46057190e+02 * F);
   }
   gm2calc_mssmnofv_set_MAh_pole(h, p.MA); gm2calc_mssmnofv_set_TB(h, p.TB); gm2calc_mssmnofv_set_Mu(h, p.Mu);
   gm2calc_mssmnofv_set_MassB(h, p.M1); gm2calc_mssmnofv_set_MassWB(h, p.M2); gm2calc_mssmnofv_set_MassG(h, p.M3);
   for (unsigned i = 0; i < 3; ++i) {
      gm2calc_mssmnofv_set_mq2(h, i, i, p.mq2[i]); gm2calc_mssmnofv_set_mu2(h, i, i, p.mu2[i]); gm2calc_mssmnofv_set_md2(h, i, i, p.md2[i]);
      gm2calc_mssmnofv_set_ml2(h, i, i, p.ml2[i]); gm2calc_mssmnofv_set_me2(h, i, i, p.me2[i]);
   }
   gm2calc_mssmnofv_set_Au(h, 2, 2, p.Au33); gm2calc_mssmnofv_set_Ad(h, 2, 2, p.Ad33); gm2calc_mssmnofv_set_Ae(h, 1, 1, p.Ae22); gm2calc_mssmnofv_set_Ae(h, 2, 2, p.Ae33);
   gm2calc_mssmnofv_set_scale(h, p.scale);
   reinterpret_cast<MSSMNoFV_onshell*>(h)->do_force_output(p.force_output); // (no C setter for this flag)
   throw_for(p.mode == 0 ? gm2calc_mssmnofv_calculate_masses(h) : gm2calc_mssmnofv_convert_to_onshell_params(h, p.precision, p.max_iter));
   g.h = nullptr;
   return reinterpret_cast<MSSMNoFV_onshell*>(h);
}

THDM* make_thdm_c(const ThdmPoint& p)
{
   ::gm2calc_SM sm; gm2calc_sm_set_to_default(&sm);
   sm.alpha_em_mz = p.alpha_em_mz; sm.mu[2] = p.mt; sm.mu[1] = 1.28; sm.md[2] = p.mb; sm.ml[2] = p.mtau; sm.mh = p.mhSM;
   ::gm2calc_THDM_config cfg; gm2calc_thdm_config_set_to_default(&cfg);
   cfg.force_output = p.force_output; cfg.running_couplings = p.running_couplings;
   const double D[3][3] = {{0.1, 0.2, 0.3}, {0.4, 0.5, 0.6}, {0.7, 0.8, 0.9}};
   ::gm2calc_THDM* h = nullptr;
   if (p.gauge) {
      ::gm2calc_THDM_gauge_basis b; std::memset(&b, 0, sizeof b);
      b.yukawa_type = (gm2calc_THDM_yukawa_type)p.yukawa_type;
      for (int i = 0; i < 7; ++i) b.lambda[i] = p.lambda[i];
      b.tan_beta = p.tb; b.m122 = p.m122; b.zeta_u = p.zeta_u; b.zeta_d = p.zeta_d; b.zeta_l = p.zeta_l;
      for (int i = 0; i < 3; ++i) for (int k = 0; k < 3; ++k) {
         b.Delta_u[i][k] = p.delta_scale * D[i][k]; b.Delta_d[i][k] = 2 * p.delta_scale * D[i][k]; b.Delta_l[i][k] = 3 * p.delta_scale * D[i][k];
         b.Pi_u[i][k] = p.pi_scale * D[i][k]; b.Pi_d[i][k] = 2 * p.pi_scale * D[i][k]; b.Pi_l[i][k] = 3 * p.pi_scale * D[i][k];
      }
      throw_for(gm2calc_thdm_new_with_gauge_basis(&h, &b, &sm, &cfg));
   } else {
      ::gm2calc_THDM_mass_basis b; std::memset(&b, 0, sizeof b);
      b.yukawa_type = (gm2calc_THDM_yukawa_type)p.yukawa_type;
      b.mh = p.mh; b.mH = p.mH; b.mA = p.mA; b.mHp = p.mHp; b.sin_beta_minus_alpha = p.sba; b.lambda_6 = p.l6; b.lambda_7 = p.l7;
      b.tan_beta = p.tb; b.m122 = p.m122; b.zeta_u = p.zeta_u; b.zeta_d = p.zeta_d; b.zeta_l = p.zeta_l;
      for (int i = 0; i < 3; ++i) for (int k = 0; k < 3; ++k) {
         b.Delta_u[i][k] = p.delta_scale * D[i][k]; b.Delta_d[i][k] = 2 * p.delta_scale * D[i][k]; b.Delta_l[i][k] = 3 * p.delta_scale * D[i][k];
         b.Pi_u[i][k] = p.pi_scale * D[i][k]; b.Pi_d[i][k] = 2 * p.pi_scale * D[i][k]; b.Pi_l[i][k] = 3 * p.pi_scale * D[i][k];
      }
      throw_for(gm2calc_thdm_new_with_mass_basis(&h, &b, &sm, &cfg));
   }
   if (!h) throw gm2calc::ESetupError("C interface: no error code but no model");
   return reinterpret_cast<THDM*>(h);
}
void destroy_c(MSSMNoFV_onshell* m) { gm2calc_mssmnofv_free(reinterpret_cast<::MSSMNoFV_onshell*>(m)); }
void destroy_c(THDM* m) { gm2calc_thdm_free(reinterpret_cast<::gm2calc_THDM*>(m)); }

MSSMNoFV_onshell* copy_mssm(const MSSMNoFV_onshell& m) { return new MSSMNoFV_onshell(m); }
THDM* copy_thdm(const THDM& m) { return new THDM(m); }
void destroy(MSSMNoFV_onshell* m) { delete m; }
void destroy(THDM* m) { delete m; }

namespace {
template <class A> double fold(const A& a)
{
   double s = 0;
   for (Eigen::Index i = 0; i < a.size(); ++i) s += (i + 1) * std::real(a.data()[i]) + 0.5 * (i + 1) * std::imag(std::complex<double>(a.data()[i]));
   return s;
}
struct MF { const char* name; double (*f)(const MSSMNoFV_onshell&); };
#define F(n) {#n, [](const MSSMNoFV_onshell& m) -> double { return gm2calc::n(m); }}
#define FA(n) {#n, [](const MSSMNoFV_onshell& m) -> double { return fold(gm2calc::n(m)); }}
const MF mssm_fns[] = {
   F(calculate_amu_1loop), F(calculate_amu_1loop_non_tan_beta_resummed), F(amu1LChi0), F(amu1LChipm),
   F(calculate_amu_2loop), F(calculate_amu_2loop_non_tan_beta_resummed), F(amu2LFSfapprox), F(amu2LFSfapprox_non_tan_beta_resummed),
   F(amu2LChipmPhotonic), F(amu2LChi0Photonic), F(amu2LaSferm), F(amu2LaCha),
   F(calculate_uncertainty_amu_0loop), F(calculate_uncertainty_amu_1loop), F(calculate_uncertainty_amu_2loop),
   {"calculate_uncertainty_amu_0loop_amu1L", [](const MSSMNoFV_onshell& m) -> double { return gm2calc::calculate_uncertainty_amu_0loop(m, 2.5e-9); }},
   {"calculate_uncertainty_amu_1loop_amu2L", [](const MSSMNoFV_onshell& m) -> double { return gm2calc::calculate_uncertainty_amu_1loop(m, -1.5e-10); }},
   F(amu1Lapprox), F(amu1Lapprox_non_tan_beta_resummed), F(amu1LWHnu), F(amu1LWHmuL), F(amu1LBHmuL), F(amu1LBHmuR), F(amu1LBmuLmuR),
   F(delta_mu_correction), F(delta_tau_correction), F(delta_bottom_correction), F(tan_beta_cor),
   FA(AAC), FA(AAN), FA(BBC), FA(BBN), FA(x_im), FA(x_k),
   F(amu2LWHnu), F(amu2LWHmuL), F(amu2LBHmuL), F(amu2LBHmuR), F(amu2LBmuLmuR), F(log_scale), F(delta_g1), F(delta_g2),
   F(delta_yuk_higgsino), F(delta_yuk_bino_higgsino), F(delta_yuk_wino_higgsino), F(delta_tan_beta), F(tan_alpha),
   FA(lambda_mu_cha), FA(lambda_stop), FA(lambda_sbot), FA(lambda_stau),
   {"get_TB", [](const MSSMNoFV_onshell& m) -> double { return m.get_TB(); }},
   {"get_vev", [](const MSSMNoFV_onshell& m) -> double { return m.get_vev(); }},
   {"c_api_amu", [](const MSSMNoFV_onshell& m) -> double {
      const ::MSSMNoFV_onshell* h = reinterpret_cast<const ::MSSMNoFV_onshell*>(&m);
      return gm2calc_mssmnofv_calculate_amu_1loop(h) + 2 * gm2calc_mssmnofv_calculate_amu_2loop(h) + 3 * gm2calc_mssmnofv_calculate_uncertainty_amu_2loop(h) +
             5 * gm2calc_mssmnofv_calculate_amu_1loop_non_tan_beta_resummed(h) + 7 * gm2calc_mssmnofv_amu2LaSferm(h) + 11 * gm2calc_mssmnofv_get_TB(h); }},
   {"c_api_strings", [](const MSSMNoFV_onshell& m) -> double {
      ::MSSMNoFV_onshell* h = reinterpret_cast<::MSSMNoFV_onshell*>(const_cast<MSSMNoFV_onshell*>(&m)); // the C string getters take a non-const handle but only read
      char a[96], b[96];
      gm2calc_mssmnofv_get_problems(h, a, sizeof a); gm2calc_mssmnofv_get_warnings(h, b, sizeof b);
      double r = gm2calc_mssmnofv_have_problem(h) + 2.0 * gm2calc_mssmnofv_have_warning(h);
      for (const char* p = a; *p; ++p) r = r * 1.0000001 + (unsigned char)*p;
      for (const char* p = b; *p; ++p) r = r * 1.0000001 + (unsigned char)*p;
      return r; }},
   {"have_warning", [](const MSSMNoFV_onshell& m) -> double { return m.get_problems().have_warning() + 2.0 * m.get_problems().have_problem() + 4.0 * m.get_problems().get_warnings().size() + 1024.0 * m.get_problems().get_problems().size(); }},
};
#undef F
#undef FA
struct TF { const char* name; double (*f)(const THDM&); };
#define F(n) {#n, [](const THDM& m) -> double { return gm2calc::n(m); }}
const TF thdm_fns[] = {
   F(calculate_amu_1loop), F(calculate_amu_2loop), F(calculate_amu_2loop_fermionic), F(calculate_amu_2loop_bosonic),
   F(calculate_uncertainty_amu_0loop), F(calculate_uncertainty_amu_1loop), F(calculate_uncertainty_amu_2loop),
   {"calculate_uncertainty_amu_0loop_amu1L_amu2L", [](const THDM& m) -> double { return gm2calc::calculate_uncertainty_amu_0loop(m, 1e-11, 2e-11); }},
   {"calculate_uncertainty_amu_1loop_amu1L_amu2L", [](const THDM& m) -> double { return gm2calc::calculate_uncertainty_amu_1loop(m, 1e-11, 2e-11); }},
   {"calculate_uncertainty_amu_2loop_amu1L_amu2L", [](const THDM& m) -> double { return gm2calc::calculate_uncertainty_amu_2loop(m, 1e-11, 2e-11); }},
   {"c_api_amu", [](const THDM& m) -> double {
      const ::gm2calc_THDM* h = reinterpret_cast<const ::gm2calc_THDM*>(&m);
      return gm2calc_thdm_calculate_amu_1loop(h) + 2 * gm2calc_thdm_calculate_amu_2loop(h) + 3 * gm2calc_thdm_calculate_amu_2loop_fermionic(h) +
             5 * gm2calc_thdm_calculate_amu_2loop_bosonic(h) + 7 * gm2calc_thdm_calculate_uncertainty_amu_2loop(h); }},
   {"yukawas", [](const THDM& m) -> double { return fold(m.get_yuh()) + fold(m.get_ydH()) + fold(m.get_ylA()) + fold(m.get_yuHp()) + fold(m.get_ylHp()); }},
   {"zetas", [](const THDM& m) -> double { return m.get_zeta_u() + 2 * m.get_zeta_d() + 3 * m.get_zeta_l(); }},
   {"spectrum", [](const THDM& m) -> double { return m.get_Mhh(0) + 2 * m.get_Mhh(1) + 3 * m.get_MAh(1) + 4 * m.get_MHm(1) + m.get_alpha_h() + m.get_beta() + m.get_eta() + m.get_LambdaFive() + m.get_LambdaSixSeven(); }},
   {"sm_derived", [](const THDM& m) -> double { const auto& sm = m.get_sm();
      return sm.get_e_0() + 2 * sm.get_e_mz() + 3 * sm.get_gY() + 5 * sm.get_g2() + 7 * sm.get_g3() + 11 * sm.get_cw() + 13 * sm.get_sw() + 17 * sm.get_v() + fold(sm.get_ckm()) + fold(sm.get_mu()) + fold(sm.get_md()) + fold(sm.get_ml()); }},
   {"c_api_misc", [](const THDM& m) -> double {
      // the small functions of the C interface, from several threads at once
      double r = m.get_tan_beta();
      for (int e = -1; e <= 4; ++e) { const char* t = gm2calc_error_str((gm2calc_error)e); for (const char* p = t; p && *p; ++p) r = r * 1.0000001 + (unsigned char)*p; }
      for (int y = 1; y <= 6; ++y) r += (double)int_to_c_yukawa_type(y) * y;
      ::gm2calc_SM sm; gm2calc_sm_set_to_default(&sm); r += sm.mw + sm.mz + sm.alpha_s_mz + sm.ckm_real[0][1] + sm.mu[2];
      ::gm2calc_THDM_config cfg; gm2calc_thdm_config_set_to_default(&cfg); r += cfg.force_output + 2 * cfg.running_couplings;
      return r; }},
   {"problems", [](const THDM& m) -> double { return m.get_problems().have_warning() + 2.0 * m.get_problems().have_problem() + 4.0 * m.get_problems().get_problems().size(); }},
};
#undef F
} // namespace

int n_mssm_fns() { return (int)(sizeof mssm_fns / sizeof mssm_fns[0]); }
const char* mssm_fn_name(int i) { return mssm_fns[i].name; }
double eval_mssm(int fn, const MSSMNoFV_onshell& m) { return mssm_fns[fn].f(m); }
int n_thdm_fns() { return (int)(sizeof thdm_fns / sizeof thdm_fns[0]); }
const char* thdm_fn_name(int i) { return thdm_fns[i].name; }
double eval_thdm(int fn, const THDM& m) { return thdm_fns[fn].f(m); }

std::string print_mssm(const MSSMNoFV_onshell& m) { std::ostringstream os; os << m; return os.str(); }
std::string print_thdm(const THDM& m) { std::ostringstream os; os << m; return os.str(); }

namespace {
struct H { uint64_t h = 0xcbf29ce484222325ULL; void d(double x) { uint64_t v; std::memcpy(&v, &x, 8); for (int i = 0; i < 8; ++i) { h ^= (v >> (8 * i)) & 0xff; h *= 0x100000001b3ULL; } }
           template <class A> void a(const A& m) { for (Eigen::Index i = 0; i < m.size(); ++i) { d(std::real(m.data()[i])); d(std::imag(std::complex<double>(m.data()[i]))); } }
           void s(const std::string& t) { for (unsigned char c : t) { h ^= c; h *= 0x100000001b3ULL; } } };
}
uint64_t getters_mssm(const MSSMNoFV_onshell& m)
{
   H h;
   h.d(m.get_EL()); h.d(m.get_EL0()); h.d(m.get_gY()); h.d(m.get_g1()); h.d(m.get_g2()); h.d(m.get_g3()); h.d(m.get_vd()); h.d(m.get_vu());
   h.d(m.get_MassB()); h.d(m.get_MassWB()); h.d(m.get_MassG()); h.d(m.get_Mu()); h.d(m.get_BMu()); h.d(m.get_mHd2()); h.d(m.get_mHu2()); h.d(m.get_scale());
   h.a(m.get_Ae()); h.a(m.get_Au()); h.a(m.get_Ad()); h.a(m.get_mq2()); h.a(m.get_mu2()); h.a(m.get_md2()); h.a(m.get_ml2()); h.a(m.get_me2());
   h.a(m.get_Ye()); h.a(m.get_Yu()); h.a(m.get_Yd());
   h.d(m.get_MW()); h.d(m.get_MZ()); h.d(m.get_ME()); h.d(m.get_MM()); h.d(m.get_ML()); h.d(m.get_MU()); h.d(m.get_MC()); h.d(m.get_MT()); h.d(m.get_MD()); h.d(m.get_MS());
   h.d(m.get_MB()); h.d(m.get_MBMB()); h.d(m.get_MA0());
   h.a(m.get_MAh()); h.a(m.get_Mhh()); h.a(m.get_MHpm()); h.a(m.get_MCha()); h.a(m.get_MChi()); h.a(m.get_UM()); h.a(m.get_UP()); h.a(m.get_ZN());
   h.a(m.get_MSe()); h.a(m.get_MSm()); h.a(m.get_MStau()); h.a(m.get_MSu()); h.a(m.get_MSd()); h.a(m.get_MSc()); h.a(m.get_MSs()); h.a(m.get_MSt()); h.a(m.get_MSb());
   h.d(m.get_MSveL()); h.d(m.get_MSvmL()); h.d(m.get_MSvtL());
   h.a(m.get_USe()); h.a(m.get_USm()); h.a(m.get_UStau()); h.a(m.get_USu()); h.a(m.get_USd()); h.a(m.get_USc()); h.a(m.get_USs()); h.a(m.get_USt()); h.a(m.get_USb());
   h.a(m.get_ZH()); h.a(m.get_ZA()); h.a(m.get_ZP());
   const auto& ph = m.get_physical();
   h.d(ph.MVZ); h.d(ph.MVWm); h.d(ph.MFt); h.d(ph.MFb); h.d(ph.MFtau); h.d(ph.MFm); h.a(ph.MSm); h.d(ph.MSvmL); h.a(ph.MChi); h.a(ph.MCha); h.a(ph.MAh);
   h.s(m.get_problems().get_problems()); h.s(m.get_problems().get_warnings());
   h.d(m.do_force_output()); h.d(m.do_verbose_output());
   return h.h;
}
uint64_t getters_thdm(const THDM& m)
{
   H h;
   h.d(m.get_alpha_em()); h.d(m.get_alpha_h()); h.d(m.get_beta()); h.d(m.get_sin_beta_minus_alpha()); h.d(m.get_cos_beta_minus_alpha()); h.d(m.get_eta());
   h.d(m.get_tan_beta()); h.d(m.get_v()); h.d(m.get_v_sqr()); h.d(m.get_lambda1()); h.d(m.get_lambda2()); h.d(m.get_lambda3()); h.d(m.get_lambda4());
   h.d(m.get_lambda5()); h.d(m.get_lambda6()); h.d(m.get_lambda7()); h.d(m.get_LambdaFive()); h.d(m.get_LambdaSixSeven()); h.d(m.get_m122());
   h.d(m.get_g1()); h.d(m.get_g2()); h.d(m.get_v1()); h.d(m.get_v2());
   h.a(m.get_Gamma_u()); h.a(m.get_Gamma_d()); h.a(m.get_Gamma_l()); h.a(m.get_Pi_u()); h.a(m.get_Pi_d()); h.a(m.get_Pi_l());
   h.a(m.get_Mhh()); h.a(m.get_MAh()); h.a(m.get_MHm()); h.a(m.get_MFu()); h.a(m.get_MFd()); h.a(m.get_MFv()); h.a(m.get_MFe());
   h.d(m.get_MVG()); h.d(m.get_MVP()); h.d(m.get_MVWm()); h.d(m.get_MVZ());
   h.a(m.get_ZH()); h.a(m.get_ZA()); h.a(m.get_ZP()); h.a(m.get_Vu()); h.a(m.get_Uu()); h.a(m.get_Vd()); h.a(m.get_Ud()); h.a(m.get_Ve()); h.a(m.get_Ue());
   h.d(m.get_zeta_u()); h.d(m.get_zeta_d()); h.d(m.get_zeta_l());
   h.a(m.get_yuh()); h.a(m.get_yuH()); h.a(m.get_yuA()); h.a(m.get_yuHp()); h.a(m.get_ydh()); h.a(m.get_ydH()); h.a(m.get_ydA()); h.a(m.get_ydHp());
   h.a(m.get_ylh()); h.a(m.get_ylH()); h.a(m.get_ylA()); h.a(m.get_ylHp());
   const auto& sm = m.get_sm();
   h.d(sm.get_alpha_em_0()); h.d(sm.get_alpha_em_mz()); h.d(sm.get_alpha_s_mz()); h.d(sm.get_mh()); h.d(sm.get_mw()); h.d(sm.get_mz());
   h.a(sm.get_mu()); h.a(sm.get_md()); h.a(sm.get_mv()); h.a(sm.get_ml()); h.a(sm.get_ckm());
   h.d(sm.get_e_0()); h.d(sm.get_e_mz()); h.d(sm.get_gY()); h.d(sm.get_g2()); h.d(sm.get_g3()); h.d(sm.get_cw()); h.d(sm.get_sw()); h.d(sm.get_v());
   h.s(m.get_problems().get_problems()); h.s(m.get_problems().get_warnings());
   return h.h;
}

double sm_ops(double lambda, double A, double rho, double eta, double mz, double alpha_s)
{
   gm2calc::SM sm;
   sm.set_ckm_from_wolfenstein(lambda, A, rho, eta);
   sm.set_mz(mz); sm.set_alpha_s_mz(alpha_s);
   double r = fold(sm.get_ckm()) + sm.get_e_0() + sm.get_e_mz() + sm.get_gY() + sm.get_g2() + sm.get_g3() + sm.get_cw() + sm.get_sw() + sm.get_v();
   r += gm2calc::calculate_mt_SM6_MSbar(173.34, alpha_s, mz, 2 * mz);
   r += gm2calc::calculate_mb_SM6_MSbar(4.18, 173.34, alpha_s, mz, 3 * mz);
   r += gm2calc::calculate_mtau_SM6_MSbar(1.777, 1.0 / 128.9, 2 * mz);
   r += gm2calc::calculate_mb_SM5_DRbar(4.18, alpha_s, mz);
   gm2calc::SM sm2;
   sm2.set_ckm_from_angles(0.22, 0.003 + rho * 1e-3, 0.04, 1.2 + eta);
   r += fold(sm2.get_ckm());
   return r;
}

namespace {
uint64_t hash_sm(const gm2calc::SM& sm)
{
   H h;
   h.d(sm.get_alpha_em_0()); h.d(sm.get_alpha_em_mz()); h.d(sm.get_alpha_s_mz()); h.d(sm.get_mh()); h.d(sm.get_mw()); h.d(sm.get_mz());
   h.a(sm.get_mu()); h.a(sm.get_md()); h.a(sm.get_mv()); h.a(sm.get_ml()); h.a(sm.get_ckm());
   h.d(sm.get_e_0()); h.d(sm.get_e_mz()); h.d(sm.get_gY()); h.d(sm.get_g2()); h.d(sm.get_g3()); h.d(sm.get_cw()); h.d(sm.get_sw()); h.d(sm.get_v());
   return h.h;
}
struct Lcg { uint64_t s; uint64_t next() { s = s * 6364136223846793005ULL + 1442695040888963407ULL; return s >> 11; } double u() { return (double)(next() & 0xFFFFFFFFFFFFFULL) / 4503599627370496.0; } unsigned below(unsigned n) { return (unsigned)(next() % n); } };
void sm_random_setter(gm2calc::SM& sm, Lcg& r)
{
   switch (r.below(12)) {
   case 0: sm.set_alpha_em_0(1.0 / (137.0 + r.u())); break;
   case 1: sm.set_alpha_em_mz(1.0 / (128.0 + r.u())); break;
   case 2: sm.set_alpha_s_mz(0.11 + 0.02 * r.u()); break;
   case 3: sm.set_mh(120 + 10 * r.u()); break;
   case 4: sm.set_mw(80 + r.u()); break;
   case 5: case 6: sm.set_mz(90.5 + 1.5 * r.u()); break;
   case 7: sm.set_mu(2, 170 + 6 * r.u()); break;
   case 8: sm.set_md(2, 4 + 0.5 * r.u()); break;
   case 9: sm.set_ml(2, 1.7 + 0.1 * r.u()); break;
   case 10: sm.set_ckm_from_wolfenstein(0.22 + 0.01 * r.u(), 0.8 + 0.05 * r.u(), 0.12 + 0.05 * r.u(), 0.33 + 0.05 * r.u()); break;
   default: sm.set_ckm_from_angles(0.22 + 0.01 * r.u(), 0.003 + 0.001 * r.u(), 0.04 + 0.002 * r.u(), 1.1 + 0.2 * r.u()); break;
   }
}
double sm_random_getter(const gm2calc::SM& sm, Lcg& r)
{
   switch (r.below(9)) {
   case 0: return sm.get_e_0(); case 1: return sm.get_e_mz(); case 2: return sm.get_gY(); case 3: return sm.get_g2(); case 4: return sm.get_g3();
   case 5: return sm.get_cw(); case 6: return sm.get_sw(); case 7: return sm.get_v(); default: return fold(sm.get_ckm());
   }
}
} // namespace

uint64_t sm_getters(const gm2calc::SM& sm) { return hash_sm(sm); }
size_t sizeof_sm() { return sizeof(gm2calc::SM); }
void destroy(gm2calc::SM* s) { delete s; }

gm2calc::SM* make_shared_sm(uint64_t seed)
{
   Lcg r{seed | 1};
   auto* sm = new gm2calc::SM();
   const unsigned n = 2 + r.below(6);
   for (unsigned i = 0; i < n; ++i) sm_random_setter(*sm, r); // setters only: no derived quantity has been asked for yet
   return sm;
}

uint64_t sm_history(uint64_t seed, bool* same_as_fresh)
{
   Lcg r{seed | 1};
   gm2calc::SM sm;
   double sink = 0;
   const unsigned n = 4 + r.below(14);
   for (unsigned i = 0; i < n; ++i) { if (r.below(2)) sm_random_setter(sm, r); else sink += sm_random_getter(sm, r); }
   const uint64_t h1 = hash_sm(sm);
   // a fresh object with the same final parameter values
   gm2calc::SM f;
   f.set_alpha_em_0(sm.get_alpha_em_0()); f.set_alpha_em_mz(sm.get_alpha_em_mz()); f.set_alpha_s_mz(sm.get_alpha_s_mz());
   f.set_mh(sm.get_mh()); f.set_mw(sm.get_mw()); f.set_mz(sm.get_mz());
   f.set_mu(sm.get_mu()); f.set_md(sm.get_md()); f.set_mv(sm.get_mv()); f.set_ml(sm.get_ml()); f.set_ckm(sm.get_ckm());
   const uint64_t h2 = hash_sm(f);
   if (same_as_fresh) *same_as_fresh = (h1 == h2);
   (void)sink;
   return h1;
}

THDM* make_thdm_with_sm(const ThdmPoint& p, const gm2calc::SM& sm)
{
   gm2calc::thdm::Config cfg;
   cfg.force_output = p.force_output; cfg.running_couplings = p.running_couplings;
   gm2calc::thdm::Mass_basis b;
   b.yukawa_type = gm2calc::thdm::int_to_cpp_yukawa_type(p.yukawa_type >= 1 && p.yukawa_type <= 6 ? p.yukawa_type : 2);
   b.mh = p.mh; b.mH = p.mH; b.mA = p.mA; b.mHp = p.mHp; b.sin_beta_minus_alpha = p.sba; b.lambda_6 = p.l6; b.lambda_7 = p.l7;
   b.tan_beta = p.tb; b.m122 = p.m122; b.zeta_u = p.zeta_u; b.zeta_d = p.zeta_d; b.zeta_l = p.zeta_l;
   return new THDM(b, sm, cfg);
}

uint64_t mutate_mssm(MSSMNoFV_onshell& m, int what, double u)
{
   // a caller changing ITS OWN model (possibly a copy of a shared one) and recalculating the spectrum
   // every public mutator of the model classes takes part (24 kinds)
   switch (what % 30) {
   // a parameter made degenerate AFTER the model was set up, force_output on: the recalculation fails deep inside
   case 24: m.do_force_output(true); m.get_physical().MVWm = 0; break;
   case 25: m.do_force_output(true); m.get_physical().MVZ = 0; break;
   case 26: m.do_force_output(true); m.set_alpha_MZ(std::numeric_limits<double>::infinity()); break;
   case 27: m.do_force_output(true); m.get_physical().MFm = 0; break;
   case 28: m.do_force_output(true); m.set_g3(std::numeric_limits<double>::quiet_NaN()); break;
   case 29: m.do_force_output(true); m.set_vd(0); break;
   case 8: { const MSSMNoFV_onshell& cm = m; auto ph = cm.get_physical(); ph.MSm(0) *= 1 + 0.01 * u; ph.MSm(1) *= 1 + 0.02 * u; ph.MSvmL *= 1 + 0.01 * u; m.set_physical(ph); } break; // whole pole-mass struct replaced
   case 9: { const MSSMNoFV_onshell& cm = m; auto ph = cm.get_physical(); ph.MChi(0) *= 1 + 0.01 * u; ph.MCha(0) *= 1 + 0.01 * u; m.set_physical(ph); } break;
   case 10: m.get_physical().MSm(1) *= 1 + 0.01 * u; break;                  // a pole mass written through the non-const accessor
   case 11: m.set_MA0(300 + 2000 * u); break;
   case 12: m.set_alpha_MZ(0.0077552 * (1 + 0.001 * u)); m.set_alpha_thompson(0.00729735 * (1 + 0.0001 * u)); break;
   case 13: m.set_g3(1.2 + 0.05 * u); break;
   case 14: m.set_Au(2, 2, -2000 + 4000 * u); m.set_Ad(2, 2, -1000 + 2000 * u); break;
   case 15: m.set_mq2(2, 2, (500 + 3000 * u) * (500 + 3000 * u)); m.set_mu2(2, 2, (500 + 3000 * u) * (500 + 3000 * u)); m.set_md2(2, 2, (600 + 3000 * u) * (600 + 3000 * u)); break;
   case 16: m.set_MassG(500 + 3000 * u); break;
   case 17: m.set_ml2(2, 2, (200 + 2000 * u) * (200 + 2000 * u)); m.set_me2(2, 2, (250 + 2000 * u) * (250 + 2000 * u)); break;
   case 18: m.set_BMu(m.get_BMu() * (1 + 0.01 * u)); break;
   case 19: m.set_mHd2(m.get_mHd2() * (1 + 0.01 * u)); m.set_mHu2(m.get_mHu2() * (1 + 0.01 * u)); break;
   case 20: m.set_vd(m.get_vd() * (1 + 0.001 * u)); m.set_vu(m.get_vu() * (1 - 0.001 * u)); break;
   case 21: m.do_force_output(u < 0.5); break;
   case 22: m.set_verbose_output(false); m.set_Ae(2, 2, -3000 + 6000 * u); break;
   case 23: { auto Ye = m.get_Ye(); Ye(1, 1) *= 1 + 0.001 * u; m.set_Ye(Ye); } break;
   case 0: m.set_TB(2 + 50 * u); break;
   case 1: m.set_Mu((u < 0.2 ? -1 : 1) * (150 + 1500 * u)); break;
   case 2: m.set_ml2(1, 1, (200 + 2000 * u) * (200 + 2000 * u)); break;
   case 3: m.set_me2(1, 1, (200 + 2000 * u) * (200 + 2000 * u)); break;
   case 4: m.set_MassB(100 + 1000 * u); break;
   case 5: m.set_MassWB(150 + 1000 * u); break;
   case 6: m.set_Ae(1, 1, -1000 + 2000 * u); break;
   default: m.set_scale(300 + 2000 * u); break;
   }
   if ((what / 30) % 3 == 0) m.convert_to_onshell(1e-8, 200);
   else if ((what / 30) % 3 == 1) m.calculate_masses();
   // else: parameters changed, spectrum not recalculated (the getters hash below shows the object as it is)
   return getters_mssm(m);
}
uint64_t mutate_thdm(THDM& m, int what, double u)
{
   (void)what;
   m.set_tan_beta(0.5 + 40 * u);
   return getters_thdm(m);
}

double ff_ops(double x, double y, double z)
{
   // the loop functions and special functions called directly (x, y, z > 0)
   using namespace gm2calc;
   double r = F1C(x) + F2C(x) + F3C(x) + F4C(x) + F1N(y) + F2N(y) + F3N(y) + F4N(y) + Fa(x, y) + Fb(x, y) + G3(z) + G4(z) + Iabc(x, y, z);
   r += f_PS(x) + f_S(y) + f_sferm(z) + f_CSl(x) + f_CSd(x, y, z, 1 + x) + f_CSu(y, x, z, 1 + y) + F1(x) + F1t(y) + F2(z) + F3(x);
   r += FPZ(x, y) + FSZ(y, z) + FCWl(x, z) + FCWu(x, y, z, 1 + x, 0.3, -0.6) + FCWd(z, y, x, 1 + y, 0.3, -0.6) + Phi(x, y, z) + lambda_2(x, y, z);
   r += dilog(x - y) + clausen_2(z) + std::real(dilog(std::complex<double>(x, -y))) + std::imag(dilog(std::complex<double>(-z, y)));
   // special-cased arguments
   r += F1C(1.0) + F2N(1.0) + Iabc(x, x, z) + Iabc(y, y, y) + Phi(x, x, z) + FPZ(x, x) + f_PS(0.25) + f_S(0.25) + dilog(1.0) + Fa(x, x) + Fb(1.0, 1.0);
   return r;
}

size_t sizeof_mssm() { return sizeof(MSSMNoFV_onshell); }
size_t sizeof_thdm() { return sizeof(THDM); }

} // namespace ops
