// thrsim workload, oracles and worker main (decides C19).  Compiled WITHOUT
// instrumentation: everything that touches library objects goes through ops.cpp.
#include "../common/sim.hpp"
#include "ops.hpp"
#include "rt.hpp"

#include "gm2calc/gm2_error.hpp"

#include <algorithm>
#include <cerrno>
#include <cfenv>
#include <clocale>
#include <cstring>
#include <iostream>
#include <limits>
#include <locale>
#include <map>
#include <memory>
#include <set>
#include <thread>

#include <sys/personality.h>
#include <sys/resource.h>
#include <sys/wait.h>
#include <unistd.h>

namespace {

const uint64_t ENGINE_ID = 19;
// rare paths whose reach is reported in the evidence (function name substrings; hits = entries by simulated tasks)
const char* const PROBE_NAMES[] = {"convert_me2_root_modify", "convert_me2_fpi_modify", "flag_no_convergence_me2", "flag_no_convergence_Mu_MassB_MassWB", "flag_tachyon",
                                   "convert_to_non_tan_beta_resummed", "calculate_lambda_qcd", "set_ckm_from_wolfenstein", "SLHAea::Line::str", "amu2L_F_charged", "amu2L_B_Yuk",
                                   "reorder_pole_masses", "find_bino_like_neutralino"};
constexpr int N_PROBES = sizeof(PROBE_NAMES) / sizeof(PROBE_NAMES[0]);
std::vector<int> g_probe_owner; // probe range -> index into PROBE_NAMES
constexpr int NSLOTS = 4, NSHARED = 3;

struct CorpusFile { std::string path, type, bytes; };
std::vector<CorpusFile> g_corpus;
sim::Progress g_prog;

void load_corpus(const char* manifest)
{
   for (auto& l : sim::read_plan_file(manifest)) {
      auto t = sim::split(l);
      if (t.size() < 2) continue;
      CorpusFile f; f.type = t[0]; f.path = t[1];
      if (FILE* fp = std::fopen(t[1].c_str(), "rb")) { char buf[65536]; size_t n; while ((n = std::fread(buf, 1, sizeof buf, fp)) > 0) f.bytes.append(buf, n); std::fclose(fp); }
      g_corpus.push_back(f);
   }
}

std::string exception_class()
{
   try { throw; }
   catch (const gm2calc::EInvalidInput&) { return "EInvalidInput"; }
   catch (const gm2calc::EPhysicalProblem&) { return "EPhysicalProblem"; }
   catch (const gm2calc::ESetupError&) { return "ESetupError"; }
   catch (const gm2calc::EReadError&) { return "EReadError"; }
   catch (const gm2calc::Error&) { return "Error"; }
   catch (const std::exception&) { return "std::exception"; }
   catch (...) { return "unknown"; }
}

// ------------------------------------------------------------------ points
ops::MssmPoint mssm_point(uint64_t seed)
{
   sim::Rng r(seed);
   ops::MssmPoint p{};
   p.mode = r.chance(0.35) ? 1 : 0;
   p.force_output = r.chance(0.2);
   p.TB = r.loguniform(2, 60);
   p.Mu = r.loguniform(100, 2000) * (r.chance(0.25) ? -1 : 1);
   p.M1 = r.loguniform(100, 2000); p.M2 = r.loguniform(100, 2000); p.M3 = r.loguniform(500, 5000);
   p.MA = r.loguniform(200, 3000); p.scale = r.loguniform(200, 3000);
   p.Au33 = r.uniform(-3000, 3000); p.Ad33 = r.uniform(-3000, 3000); p.Ae33 = r.uniform(-3000, 3000); p.Ae22 = r.chance(0.5) ? 0 : r.uniform(-1000, 1000);
   for (int i = 0; i < 3; ++i) {
      const double sq = std::pow(r.loguniform(300, 5000), 2), sl = std::pow(r.loguniform(150, 3000), 2);
      p.mq2[i] = sq; p.mu2[i] = sq * r.uniform(0.8, 1.2); p.md2[i] = sq * r.uniform(0.8, 1.2); p.ml2[i] = sl; p.me2[i] = sl * r.uniform(0.8, 1.2);
   }
   p.pole_scale = 1.0; p.MW = 80.385; p.MZ = 91.1876; p.precision = 1e-8; p.max_iter = 1000;
   if (p.mode == 1) { // stay near the shipped SLHA example so that the conversion usually converges
      p.TB = r.uniform(5, 50); p.Mu = 500 * r.uniform(0.9, 1.1); p.M1 = 200 * r.uniform(0.9, 1.1); p.M2 = 400 * r.uniform(0.9, 1.1); p.M3 = 2000;
      p.MA = 1500; p.scale = 1000;
      for (int i = 0; i < 3; ++i) { p.ml2[i] = p.me2[i] = 250000; p.mq2[i] = p.mu2[i] = p.md2[i] = 49e6; }
      p.pole_scale = r.chance(0.7) ? 1.0 : r.uniform(0.9, 1.1);
      if (r.chance(0.1)) { p.max_iter = (unsigned)r.below(4); p.precision = 1e-12; }
   }
   // a fraction of degenerate spectra: exactly equal masses send the loop functions into their x == 1 / x == y branches
   if (p.mode == 0 && r.chance(0.1)) {
      const double m = r.loguniform(200, 2000);
      p.M1 = p.M2 = m; p.Mu = r.chance(0.5) ? m : -m;
      for (int i = 0; i < 3; ++i) { p.ml2[i] = p.me2[i] = m * m; p.mq2[i] = p.mu2[i] = p.md2[i] = 4 * m * m; }
      if (r.chance(0.5)) p.MA = m;
   }
   // a fraction of unphysical points so that exception and warning paths run
   // degenerate / non-finite inputs that get past the input checks only with force_output (failures deep inside the
   // calculation instead of at its door)
   if (r.chance(0.08)) {
      const double inf = std::numeric_limits<double>::infinity(), nan = std::numeric_limits<double>::quiet_NaN();
      p.force_output = r.chance(0.7);
      switch (r.below(12)) {
      case 0: p.MW = 0; break; case 1: p.MZ = 0; break; case 2: p.alpha_MZ = inf; break; case 3: p.alpha_MZ = nan; break; case 4: p.alpha_MZ = -0.0078; break;
      case 5: p.TB = inf; break; case 6: p.Mu = nan; break; case 7: p.M1 = inf; break; case 8: p.ml2[1] = nan; break; case 9: p.scale = 0; break;
      case 10: p.MA = 0; break; default: p.TB = 1e-300; break;
      }
   }
   switch (r.below(12)) {
   case 0: p.ml2[1] = -p.ml2[1]; break;        // tachyonic smuon
   case 1: p.Mu = 0; break;
   case 2: p.MW = 95; break;                   // MW > MZ
   case 3: p.TB = 0; break;
   case 4: p.mq2[2] = -p.mq2[2]; break;
   default: break;
   }
   return p;
}

ops::ThdmPoint thdm_point(uint64_t seed)
{
   sim::Rng r(seed);
   ops::ThdmPoint p{};
   p.gauge = r.chance(0.35);
   p.yukawa_type = (int)r.range(1, 6);
   p.force_output = r.chance(0.2); p.running_couplings = r.chance(0.7);
   p.mh = 125; p.mH = r.loguniform(130, 1000); p.mA = r.loguniform(100, 1000); p.mHp = r.loguniform(100, 1000);
   p.sba = r.chance(0.7) ? r.uniform(0.95, 1.0) : r.uniform(-1, 1);
   p.l6 = r.chance(0.6) ? 0 : r.uniform(-0.5, 0.5); p.l7 = r.chance(0.6) ? 0 : r.uniform(-0.5, 0.5);
   p.tb = r.loguniform(0.5, 50); p.m122 = r.uniform(0, 1e5);
   p.zeta_u = r.uniform(-1, 1); p.zeta_d = r.uniform(-1, 1); p.zeta_l = r.uniform(-50, 50);
   const double lam[7] = {0.7, 0.6, 0.5, 0.4, 0.3, 0.2, 0.1};
   for (int i = 0; i < 7; ++i) p.lambda[i] = lam[i] * r.uniform(0.5, 1.5);
   p.delta_scale = r.chance(0.5) ? 0 : r.uniform(0, 0.2); p.pi_scale = r.chance(0.5) ? 0 : r.uniform(0, 0.4);
   p.alpha_em_mz = 1.0 / 128.94579; p.mt = 173.34; p.mb = 4.18; p.mtau = 1.77684; p.mhSM = 125.09;
   if (r.chance(0.1)) { p.mA = p.mHp = p.mH; if (r.chance(0.3)) p.mH = p.mA = p.mHp = p.mh; } // degenerate Higgs masses: x == y branches
   switch (r.below(14)) {
   case 0: p.mh = 500; break;                   // mh > mH
   case 1: p.tb = 0; break;
   case 2: p.sba = 1.5; break;
   case 3: p.yukawa_type = 7; break;            // invalid type: ESetupError
   case 4: p.lambda[0] = -5; break;             // likely tachyon in the gauge basis
   case 5: p.m122 = -1e6; break;
   default: break;
   }
   return p;
}

// ------------------------------------------------------------------ models
struct Model {
   gm2calc::MSSMNoFV_onshell* m = nullptr; gm2calc::THDM* t = nullptr; bool via_c = false; ///< allocated by the C interface: freed through it
   uint64_t obs = 0;   ///< hash of all getters when the owner last constructed / copied / mutated the model: its observable state
   bool empty() const { return !m && !t; }
   void reset() { if (m) { if (via_c) ops::destroy_c(m); else ops::destroy(m); } if (t) { if (via_c) ops::destroy_c(t); else ops::destroy(t); } m = nullptr; t = nullptr; via_c = false; obs = 0; }
};

struct OpResult { uint64_t bits = 0; std::string exc; bool skipped = false;
                  bool operator==(const OpResult& o) const { return bits == o.bits && exc == o.exc && skipped == o.skipped; } };

struct Context { Model slot[NSLOTS]; ~Context() { for (auto& s : slot) s.reset(); } };

Model g_shared[NSHARED];
gm2calc::SM* g_shared_sm = nullptr; gm2calc::SM* g_shared_sm_pristine = nullptr; std::string g_shared_sm_bytes; ///< one SM object shared by all tasks (plan line "sharedsm <seed>")
struct SharedSnap { std::string bytes; uint64_t getters = 0; std::string text; };
SharedSnap g_shared_snap[NSHARED];

/// byte image of a model.  The copy is made with plain volatile loads in this (uninstrumented) file and not with
/// memcpy: it is an observation by the harness, not an access of the program under test, and neither race detector
/// (the simulator's own, ThreadSanitizer's memcpy interceptor in layer L2) may judge it
std::string snapshot_bytes(const void* p, size_t n)
{
   std::string out(n, '\0');
   const volatile unsigned char* src = (const volatile unsigned char*)p;
   for (size_t i = 0; i < n; ++i) out[i] = (char)src[i];
   return out;
}
std::string raw_bytes(const Model& md)
{
   if (md.m) return snapshot_bytes(md.m, ops::sizeof_mssm());
   if (md.t) return snapshot_bytes(md.t, ops::sizeof_thdm());
   return "";
}
uint64_t getters_of(const Model& md) { return md.m ? ops::getters_mssm(*md.m) : md.t ? ops::getters_thdm(*md.t) : 0; }
uint64_t g_repr_only_changes = 0;
/// The byte image of a model differs after a read-only call.  "Leaves the model it is given unchanged" is a statement
/// about what can be observed (all getters): a change of representation only -- say a synchronised internal statistics
/// counter -- is counted, not reported; unsynchronised writes to a shared model are the race detector's business.
bool observably_changed(const Model& md)
{
   uint64_t now = 0;
   try { now = getters_of(md); } catch (...) { return true; }
   if (now != md.obs) return true;
   ++g_repr_only_changes;
   return false;
}

/// near-duplicate points: the point of a seed with ONE parameter moved by one ulp / 1e-12 / 1e-7 (relative).  A memo with
/// a coarse or truncated key, or a "same as last time" test with a tolerance, returns the neighbour's value for them.
void perturb(ops::MssmPoint& p, int near)
{
   if (near <= 0) return;
   static const double mag[] = {2.220446049250313e-16, 1e-12, 1e-7};
   const double f = 1.0 + mag[(near / 8) % 3];
   switch (near % 8) { case 0: p.TB *= f; break; case 1: p.Mu *= f; break; case 2: p.M1 *= f; break; case 3: p.M2 *= f; break; case 4: p.MA *= f; break; case 5: p.ml2[1] *= f; break; case 6: p.me2[1] *= f; break; default: p.scale *= f; break; }
}
void perturb(ops::ThdmPoint& p, int near)
{
   if (near <= 0) return;
   static const double mag[] = {2.220446049250313e-16, 1e-12, 1e-7};
   const double f = 1.0 + mag[(near / 8) % 3];
   switch (near % 8) { case 0: p.tb *= f; break; case 1: p.mA *= f; break; case 2: p.mH *= f; break; case 3: p.mHp *= f; break; case 4: p.zeta_l *= f; break; case 5: p.m122 *= f; break; case 6: p.lambda[0] *= f; p.zeta_u *= f; break; default: p.alpha_em_mz *= f; break; }
}

// ---- edge points: a valid point moved, along one parameter, right up to the border of the physical region (the last
// double before a tachyon appears): one sfermion / Higgs mass is almost zero there.  Special-case branches (massless
// states, regularisations, fallbacks) live at such borders and random points never come near them.  The border is found
// by bisection with the library itself, on the main thread before the tasks start (prepare_edges), so that a run stays
// a pure function of its plan text.
std::map<uint64_t, ops::MssmPoint> g_edge_mssm;
std::map<uint64_t, ops::ThdmPoint> g_edge_thdm;
uint64_t g_edge_found = 0;
uint64_t g_fresh_thread_evals = 0, g_copy_evals = 0, g_stale_injections = 0;

template <class P, class Make, class Destroy>
int classify_point(const P& p, Make make, Destroy destroy)
{
   // 0 valid, 1 tachyon / physical problem, 2 anything else
   try { auto* m = make(p); destroy(m); return 0; }
   catch (const gm2calc::EPhysicalProblem&) { return 1; }
   catch (...) { return 2; }
}

template <class P, class Set, class Make, class Destroy>
bool bisect_to_border(P& p, double x_ok, const std::vector<double>& bad_candidates, Set set, Make make, Destroy destroy)
{
   double lo = x_ok, hi = 0; bool have = false;
   for (double xb : bad_candidates) { P q = p; set(q, xb); if (classify_point(q, make, destroy) == 1) { hi = xb; have = true; break; } }
   if (!have) return false;
   for (int it = 0; it < 200; ++it) {
      const double mid = lo + (hi - lo) / 2;
      if (mid == lo || mid == hi) break;
      P q = p; set(q, mid);
      const int c = classify_point(q, make, destroy);
      if (c == 0) lo = mid; else if (c == 1) hi = mid; else return false;
   }
   set(p, lo);
   return true;
}

ops::MssmPoint edge_mssm_point(uint64_t seed)
{
   sim::Rng r(seed ^ 0x9e3779b97f4a7c15ULL);
   ops::MssmPoint p = mssm_point(seed);
   p.mode = 0; p.force_output = false; p.MW = 80.385; p.MZ = 91.1876;
   if (p.TB <= 0) p.TB = 10; if (p.Mu == 0) p.Mu = 400;
   for (int i = 0; i < 3; ++i) { p.ml2[i] = std::abs(p.ml2[i]); p.mq2[i] = std::abs(p.mq2[i]); }
   auto make = [](const ops::MssmPoint& q) { return ops::make_mssm(q); };
   auto destroy = [](gm2calc::MSSMNoFV_onshell* m) { ops::destroy(m); };
   if (classify_point(p, make, destroy) != 0) return p;
   const int which = (int)r.below(10);
   double* field = nullptr; bool soft = true;
   auto sel = [&](ops::MssmPoint& q) -> double& {
      switch (which) { case 0: return q.ml2[2]; case 1: return q.me2[2]; case 2: return q.mq2[2]; case 3: return q.mu2[2]; case 4: return q.md2[2]; case 5: return q.ml2[1]; case 6: return q.me2[1];
                       case 7: return q.Ae33; case 8: return q.Au33; default: return q.Ad33; } };
   (void)field; soft = which < 7;
   const double x0 = sel(p);
   std::vector<double> bad;
   if (soft) bad = {0.0, -0.01 * x0, -0.1 * x0, -x0, -10 * x0, -100 * x0};
   else { const double sgn = r.chance(0.5) ? 1 : -1; bad = {sgn * 1e4, sgn * 1e5, sgn * 1e6, sgn * 1e7, -sgn * 1e5, -sgn * 1e7}; }
   if (bisect_to_border(p, x0, bad, [&](ops::MssmPoint& q, double x) { sel(q) = x; }, make, destroy)) ++g_edge_found;
   return p;
}

ops::ThdmPoint edge_thdm_point(uint64_t seed)
{
   sim::Rng r(seed ^ 0x9e3779b97f4a7c15ULL);
   ops::ThdmPoint p = thdm_point(seed);
   p.gauge = true; p.force_output = false; if (p.yukawa_type < 1 || p.yukawa_type > 6) p.yukawa_type = 2; if (p.tb <= 0) p.tb = 3; p.m122 = std::abs(p.m122) + 1000;
   const double lam[7] = {0.7, 0.6, 0.5, 0.4, 0.3, 0.2, 0.1};
   for (int i = 0; i < 7; ++i) p.lambda[i] = lam[i];
   auto make = [](const ops::ThdmPoint& q) { return ops::make_thdm(q); };
   auto destroy = [](gm2calc::THDM* m) { ops::destroy(m); };
   if (classify_point(p, make, destroy) != 0) return p;
   const int which = (int)r.below(4);
   auto sel = [&](ops::ThdmPoint& q) -> double& { switch (which) { case 0: return q.m122; case 1: return q.lambda[0]; case 2: return q.lambda[3]; default: return q.lambda[4]; } };
   const double x0 = sel(p);
   std::vector<double> bad = which == 0 ? std::vector<double>{0.0, -1e3, -1e4, -1e5, -1e6, -1e8} : std::vector<double>{-0.5, -2.0, -10.0, 10.0, 50.0, -50.0};
   if (bisect_to_border(p, x0, bad, [&](ops::ThdmPoint& q, double x) { sel(q) = x; }, make, destroy)) ++g_edge_found;
   return p;
}

/// build a model according to "mssm <seed> [near]" | "thdm <seed> [near]" | "slha <idx>"
void build_model(Model& out, const std::string& kind, uint64_t arg, int near = 0)
{
   out.reset();
   if (kind == "mssm") { ops::MssmPoint p = mssm_point(arg); perturb(p, near); out.m = ops::make_mssm(p); }
   else if (kind == "thdm") { ops::ThdmPoint p = thdm_point(arg); perturb(p, near); out.t = ops::make_thdm(p); }
   else if (kind == "mssm_edge") { auto it = g_edge_mssm.find(arg); ops::MssmPoint p = it != g_edge_mssm.end() ? it->second : mssm_point(arg); perturb(p, near); out.m = ops::make_mssm(p); }
   else if (kind == "thdm_edge") { auto it = g_edge_thdm.find(arg); ops::ThdmPoint p = it != g_edge_thdm.end() ? it->second : thdm_point(arg); perturb(p, near); out.t = ops::make_thdm(p); }
   else if (kind == "thdm_ssm") { ops::ThdmPoint p = thdm_point(arg); perturb(p, near); out.t = g_shared_sm ? ops::make_thdm_with_sm(p, *g_shared_sm) : ops::make_thdm(p); }
   else if (kind == "cmssm") { ops::MssmPoint p = mssm_point(arg); perturb(p, near); out.m = ops::make_mssm_c(p); out.via_c = true; }
   else if (kind == "cthdm") { ops::ThdmPoint p = thdm_point(arg); perturb(p, near); if (p.yukawa_type >= 1 && p.yukawa_type <= 6) { out.t = ops::make_thdm_c(p); out.via_c = true; } else out.t = ops::make_thdm(p); }
   else if (kind == "slha" && !g_corpus.empty()) { const CorpusFile& f = g_corpus[arg % g_corpus.size()]; ops::make_from_slha(f.bytes, f.type, &out.m, &out.t); }
}

// ---- process-global / thread-global environment an evaluation could leave changed ("does not depend on what was
// computed before in the same process"): floating-point control state (rounding mode, exception masks, FTZ/DAZ,
// x87 precision control), the state of the standard streams the library's diagnostics go to, the C and C++ locales.
struct EnvSnap {
   int round = 0; unsigned mxcsr_ctl = 0; unsigned short x87cw = 0;
   std::ios_base::fmtflags cf[3]{}; std::streamsize cp[3]{}, cw[3]{}; char cfill[3]{}; std::ios_base::iostate cexc[3]{};
   std::string clocale, cxxlocale;
   static EnvSnap take()
   {
      EnvSnap e;
      e.round = std::fegetround();
#if defined(__x86_64__) || defined(__i386__)
      unsigned m = 0; __asm__ __volatile__("stmxcsr %0" : "=m"(m)); e.mxcsr_ctl = m & 0xffc0u; // control bits only: the sticky exception flags change legitimately
      unsigned short w = 0; __asm__ __volatile__("fnstcw %0" : "=m"(w)); e.x87cw = w;
#endif
      std::ostream* os[3] = {&std::cout, &std::cerr, &std::clog};
      for (int i = 0; i < 3; ++i) { e.cf[i] = os[i]->flags(); e.cp[i] = os[i]->precision(); e.cw[i] = os[i]->width(); e.cfill[i] = os[i]->fill(); e.cexc[i] = os[i]->exceptions(); }
      const char* l = std::setlocale(LC_ALL, nullptr); e.clocale = l ? l : "";
      e.cxxlocale = std::locale().name();
      return e;
   }
   const char* diff(const EnvSnap& o) const
   {
      if (round != o.round) return "rounding_mode";
      if (mxcsr_ctl != o.mxcsr_ctl) return "mxcsr_control_bits";
      if (x87cw != o.x87cw) return "x87_control_word";
      for (int i = 0; i < 3; ++i) if (cf[i] != o.cf[i] || cp[i] != o.cp[i] || cw[i] != o.cw[i] || cfill[i] != o.cfill[i] || cexc[i] != o.cexc[i]) return i == 0 ? "cout_format_state" : i == 1 ? "cerr_format_state" : "clog_format_state";
      if (clocale != o.clocale) return "c_locale";
      if (cxxlocale != o.cxxlocale) return "cxx_global_locale";
      return nullptr;
   }
};

/// sequential-alt reference only: before every operation errno and the sticky floating-point exception flags are set to
/// "whatever an unrelated earlier computation may have left there" (ERANGE/EDOM/EINVAL, all FP flags raised).  Their
/// values at function entry are unspecified for any library function; code that reads them without clearing them first
/// makes results depend on what ran before on the same thread.
uint64_t g_stream_format_changes = 0;
bool g_inject_stale_thread_state = false;
uint64_t g_inject_counter = 0;
bool g_check_copy = false; ///< sequential reference only: every evaluation is repeated on a fresh copy of its model

/// one operation of a task program; identical code path in simulated and sequential executions
OpResult exec_op_inner(Context& c, const std::vector<std::string>& t, std::vector<std::string>& modified);
OpResult exec_op(Context& c, const std::vector<std::string>& t, std::vector<std::string>& modified)
{
   if (g_inject_stale_thread_state) {
      static const int stale[] = {ERANGE, EDOM, EINVAL, ENOMEM};
      errno = stale[g_inject_counter++ % 4]; ++g_stale_injections;
      std::feraiseexcept(FE_INVALID | FE_DIVBYZERO | FE_OVERFLOW | FE_UNDERFLOW | FE_INEXACT);
   }
   const EnvSnap before = EnvSnap::take();
   OpResult r = exec_op_inner(c, t, modified);
   if (const char* d = EnvSnap::take().diff(before)) {
      // the format state of the standard streams influences the text of later diagnostics only, never a result: it is
      // counted as an observation; rounding mode, FP control words and the locales influence results and are violations
      if (std::strstr(d, "_format_state")) ++g_stream_format_changes;
      else modified.push_back(std::string("global_env:") + d + ":" + (t[0] == "ev" && t.size() > 1 ? t[1] : t[0]));
   }
   return r;
}
OpResult exec_op_inner(Context& c, const std::vector<std::string>& t, std::vector<std::string>& modified)
{
   OpResult r;
   auto model_ref = [&](size_t i) -> Model* {
      if (i + 1 >= t.size()) return nullptr;
      const long k = (long)sim::iparse(t[i + 1]);
      if (t[i] == "s") return &g_shared[((k % NSHARED) + NSHARED) % NSHARED];
      return &c.slot[((k % NSLOTS) + NSLOTS) % NSLOTS];
   };
   try {
      if (t[0] == "mk" && t.size() >= 4) {
         Model& s = c.slot[((sim::iparse(t[1]) % NSLOTS) + NSLOTS) % NSLOTS];
         build_model(s, t[2], (uint64_t)std::strtoull(t[3].c_str(), nullptr, 0), t.size() > 4 ? (int)sim::iparse(t[4]) : 0);
         r.bits = getters_of(s); s.obs = r.bits;
      } else if (t[0] == "cp" && t.size() >= 4) {
         Model& dst = c.slot[((sim::iparse(t[1]) % NSLOTS) + NSLOTS) % NSLOTS];
         Model* src = model_ref(2);
         if (!src || src->empty() || src == &dst) { r.skipped = true; return r; }
         const std::string before = raw_bytes(*src);
         Model n;
         if (src->m) n.m = ops::copy_mssm(*src->m); else n.t = ops::copy_thdm(*src->t);
         if (raw_bytes(*src) != before && observably_changed(*src)) modified.push_back("copy");
         // a copy is a model in the same state: all getters and the printed text agree with the source
         const uint64_t gs = getters_of(*src), gn = getters_of(n);
         if (gs != gn || (n.m ? ops::print_mssm(*n.m) != ops::print_mssm(*src->m) : ops::print_thdm(*n.t) != ops::print_thdm(*src->t))) modified.push_back("copy-differs:copy_state");
         dst.reset(); dst = n; dst.obs = gn;
         r.bits = gn;
      } else if (t[0] == "ev" && t.size() >= 4) {
         Model* md = model_ref(2);
         if (!md || md->empty()) { r.skipped = true; return r; }
         int fn = -1;
         if (md->m) { for (int i = 0; i < ops::n_mssm_fns(); ++i) if (t[1] == ops::mssm_fn_name(i)) fn = i; }
         else { for (int i = 0; i < ops::n_thdm_fns(); ++i) if (t[1] == ops::thdm_fn_name(i)) fn = i; }
         if (fn < 0) { r.skipped = true; return r; }
         const std::string before = raw_bytes(*md);
         struct Check { const Model* md; const std::string& before; std::vector<std::string>& out; const std::string& name;
                        ~Check() { if (raw_bytes(*md) != before && observably_changed(*md)) out.push_back(name); } } chk{md, before, modified, t[1]};
         r.bits = sim::bits(md->m ? ops::eval_mssm(fn, *md->m) : ops::eval_thdm(fn, *md->t));
         if (g_check_copy) {
            // "returns the bit-identical value ... on any copy of the model"
            Model cp;
            if (md->m) cp.m = ops::copy_mssm(*md->m); else cp.t = ops::copy_thdm(*md->t);
            uint64_t cb = 0; std::string cexc;
            try { cb = sim::bits(cp.m ? ops::eval_mssm(fn, *cp.m) : ops::eval_thdm(fn, *cp.t)); } catch (...) { cexc = exception_class(); }
            cp.reset();
            if (!cexc.empty() || cb != r.bits) modified.push_back("copy-differs:" + t[1]);
            // "... and does not depend on what was computed before": the same evaluation in a FRESH thread (pristine
            // thread_local state, errno, floating-point environment) must give the same bits as here, on a thread that
            // has executed the whole history so far
            ++g_fresh_thread_evals; ++g_copy_evals;
            uint64_t tb = 0; std::string texc;
            { std::thread th([&] { try { tb = sim::bits(md->m ? ops::eval_mssm(fn, *md->m) : ops::eval_thdm(fn, *md->t)); } catch (...) { texc = exception_class(); } }); th.join(); }
            if (!texc.empty() || tb != r.bits) modified.push_back("history-dependent:fresh_thread:" + t[1]);
         }
      } else if (t[0] == "pr" && t.size() >= 3) {
         Model* md = model_ref(1);
         if (!md || md->empty()) { r.skipped = true; return r; }
         const std::string before = raw_bytes(*md);
         static const std::string nm = "operator<<";
         struct Check { const Model* md; const std::string& before; std::vector<std::string>& out;
                        ~Check() { if (raw_bytes(*md) != before && observably_changed(*md)) out.push_back(nm); } } chk{md, before, modified};
         const std::string s = md->m ? ops::print_mssm(*md->m) : ops::print_thdm(*md->t);
         sim::Fnv h; h.str(s); r.bits = h.h;
      } else if (t[0] == "sm" && t.size() >= 2) {
         sim::Rng g((uint64_t)std::strtoull(t[1].c_str(), nullptr, 0));
         const double wl = g.uniform(0.2, 0.25), wa = g.uniform(0.7, 0.9), wr = g.uniform(0.1, 0.2), we = g.uniform(0.3, 0.4), mz = g.chance(0.1) ? 6000.0 : g.uniform(90, 92);
         double as = g.uniform(0.11, 0.125);
         if (t.size() > 2) { static const double mag[] = {2.220446049250313e-16, 1e-12, 1e-7}; as *= 1.0 + mag[sim::iparse(t[2]) % 3]; } // neighbour of an earlier call
         r.bits = sim::bits(ops::sm_ops(wl, wa, wr, we, mz, as));
      } else if (t[0] == "smh" && t.size() >= 2) {
         bool same = true;
         r.bits = ops::sm_history((uint64_t)std::strtoull(t[1].c_str(), nullptr, 0), &same);
         if (!same) modified.push_back("history-dependent:sm_getters");
      } else if (t[0] == "evsm") {
         if (!g_shared_sm) { r.skipped = true; return r; }
         const std::string before = snapshot_bytes(g_shared_sm, ops::sizeof_sm());
         r.bits = ops::sm_getters(*g_shared_sm);
         if (snapshot_bytes(g_shared_sm, ops::sizeof_sm()) != before) { if (g_shared_sm_pristine && ops::sm_getters(*g_shared_sm_pristine) == r.bits) ++g_repr_only_changes; else modified.push_back("shared_sm_getters"); }
      } else if (t[0] == "ff" && t.size() >= 2) {
         sim::Rng g((uint64_t)std::strtoull(t[1].c_str(), nullptr, 0));
         const double x = g.loguniform(1e-3, 1e3), y = g.chance(0.15) ? x : g.loguniform(1e-3, 1e3), z = g.chance(0.15) ? 1.0 : g.loguniform(1e-3, 1e3);
         r.bits = sim::bits(ops::ff_ops(x, y, z));
      } else if (t[0] == "mu" && t.size() >= 4) {
         // the caller changes a model it owns (never a shared one) and recalculates
         Model& s = c.slot[((sim::iparse(t[1]) % NSLOTS) + NSLOTS) % NSLOTS];
         if (s.empty()) { r.skipped = true; return r; }
         sim::Rng g((uint64_t)std::strtoull(t[3].c_str(), nullptr, 0));
         const int what = (int)sim::iparse(t[2]);
         const double u = g.uniform(0, 1);
         try { r.bits = s.m ? ops::mutate_mssm(*s.m, what, u) : ops::mutate_thdm(*s.t, what, u); }
         catch (...) { r.exc = exception_class(); r.bits = getters_of(s); } // the state after a refused recalculation is part of the result
         s.obs = r.bits;
      } else r.skipped = true;
   } catch (...) {
      r.exc = exception_class();
   }
   return r;
}

// -------------------------------------------------------------------- plan
struct Plan {
   thrsim::Config cfg;
   std::vector<std::pair<std::string, uint64_t>> shared;        // kind, arg
   std::vector<std::vector<std::vector<std::string>>> tasks;   // task -> ops -> tokens
   int seq_variant = 0;                                         // 0 reverse order, 1 repeat twice
   uint64_t shared_sm_seed = 0;                                 // 0 = no shared SM object
};

Plan parse_plan(const std::vector<std::string>& lines)
{
   Plan p;
   for (auto& l : lines) {
      auto t = sim::split(l);
      if (t.empty()) continue;
      if (t[0] == "#" && t.size() >= 6 && t[1] == "sched") {
         p.cfg.strategy = 0;
         for (int s = 0; s < thrsim::N_STRATEGIES; ++s) if (t[2] == thrsim::strategy_name(s)) p.cfg.strategy = s;
         p.cfg.quantum = sim::dparse(t[3]); p.cfg.pct_depth = (int)sim::iparse(t[4]); p.cfg.seed = std::strtoull(t[5].c_str(), nullptr, 0);
         if (t.size() > 6) p.seq_variant = (int)sim::iparse(t[6]);
      } else if (t[0] == "sharedsm" && t.size() >= 2) {
         p.shared_sm_seed = std::strtoull(t[1].c_str(), nullptr, 0) | 1;
      } else if (t[0] == "shared" && t.size() >= 4) {
         const size_t k = (size_t)(sim::iparse(t[1]) % NSHARED);
         if (p.shared.size() <= k) p.shared.resize(k + 1, {"", 0});
         p.shared[k] = {t[2], std::strtoull(t[3].c_str(), nullptr, 0)};
      } else if (t[0] == "task" && t.size() >= 3) {
         const size_t k = (size_t)(sim::iparse(t[1]) % thrsim::MAX_TASKS);
         if (p.tasks.size() <= k) p.tasks.resize(k + 1);
         p.tasks[k].push_back(std::vector<std::string>(t.begin() + 2, t.end()));
      }
   }
   // drop empty tasks (can appear after minimisation)
   p.tasks.erase(std::remove_if(p.tasks.begin(), p.tasks.end(), [](const std::vector<std::vector<std::string>>& v) { return v.empty(); }), p.tasks.end());
   return p;
}

std::vector<std::string> gen_plan(uint64_t seed, std::string* mode_out)
{
   sim::Rng r(seed);
   std::vector<std::string> p;
   const int strategy = (int)r.weighted({3, 2, 1.5, 3, 1});
   static const double quanta[] = {2, 20, 200, 2000, 20000};
   double q = quanta[r.weighted({0.4, 1.5, 3, 3, 1.5})];
   const int depth = (int)r.range(1, 3);
   const uint64_t sseed = r.next() >> 1;
   const int variant = (int)r.below(2);
   char buf[256];
   std::snprintf(buf, sizeof buf, "# sched %s %g %d %llu %d", thrsim::strategy_name(strategy), q, depth, (unsigned long long)sseed, variant);
   p.push_back(buf);
   if (mode_out) *mode_out = thrsim::strategy_name(strategy);
   static const int ntask_choices[] = {2, 2, 2, 3, 3, 4, 4, 5, 6, 8, 8, 12, 16};
   int ntasks = ntask_choices[r.below(13)];
   const int nshared = (int)r.range(1, NSHARED);
   const int flavour = (int)r.below(5); // 0 mixed, 1 shared-model heavy, 2 construction heavy, 3 slha/readers, 4 single function hammered by all
   std::vector<int> shared_kind(nshared); // 0 mssm 1 thdm
   std::vector<uint64_t> seeds_used[2];   // point seeds of this plan per model kind (for near-duplicate points)
   std::vector<uint64_t> sm_seeds;
   auto point_arg = [&](int kind) -> std::string {
      if (!seeds_used[kind].empty() && r.chance(0.3)) return std::to_string(seeds_used[kind][r.below(seeds_used[kind].size())]) + " " + std::to_string(1 + r.below(24)); // a neighbour of an earlier point
      const uint64_t sd = r.next() >> 1; seeds_used[kind].push_back(sd); return std::to_string(sd);
   };
   for (int k = 0; k < nshared; ++k) {
      const bool use_slha = !g_corpus.empty() && r.chance(0.15);
      if (use_slha) { const uint64_t idx = r.below(g_corpus.size()); shared_kind[k] = g_corpus[idx].type == "thdm" ? 1 : 0; p.push_back("shared " + std::to_string(k) + " slha " + std::to_string(idx)); }
      else { shared_kind[k] = r.chance(0.5) ? 1 : 0; const uint64_t sd = r.next() >> 1; const bool edge = r.chance(0.15); if (!edge) seeds_used[shared_kind[k]].push_back(sd);
             p.push_back("shared " + std::to_string(k) + (shared_kind[k] ? (edge ? " thdm_edge " : " thdm ") : (edge ? " mssm_edge " : " mssm ")) + std::to_string(sd)); }
   }
   auto fn_for = [&](int kind) -> std::string {
      if (kind == 0) { const int n = ops::n_mssm_fns(); return ops::mssm_fn_name(r.chance(0.5) ? (int)r.below(17) % n : (int)r.below(n)); }
      const int n = ops::n_thdm_fns(); return ops::thdm_fn_name((int)r.below(n));
   };
   const bool have_ssm = r.chance(0.4);
   if (have_ssm) p.push_back("sharedsm " + std::to_string(r.next() >> 1));
   const int hammer_k = (int)r.below(nshared);
   const std::string hammer_fn = fn_for(shared_kind[hammer_k]);
   size_t budget_ops = 96; // keeps a run below ~2M events
   for (int t = 0; t < ntasks; ++t) {
      const size_t nops = std::min<size_t>(3 + r.below(10), std::max<size_t>(3, budget_ops / ntasks));
      int slot_kind[NSLOTS] = {-1, -1, -1, -1};
      const std::string T = "task " + std::to_string(t) + " ";
      for (size_t i = 0; i < nops; ++i) {
         int what;
         switch (flavour) {
         case 1: what = (int)r.weighted({1, 1.5, 8, 1, 0.3, 0, 0, 1.0, 0.2}); break;
         case 2: what = (int)r.weighted({6, 1, 2, 0.5, 1, 1, 0, 2.0, 0.3}); break;
         case 3: what = (int)r.weighted({1, 0.5, 3, 1, 0.3, 5, 0, 0.5, 0.3}); break;
         case 4: what = (int)r.weighted({0.5, 0.5, 1, 0.2, 0.1, 0, 0, 0.3, 0.1}) ; if (r.chance(0.7)) what = 6; break;
         default: what = (int)r.weighted({3, 1.5, 6, 1, 0.7, 0.7, 0, 1.2, 0.5}); break;
         }
         const int sl = (int)r.below(NSLOTS);
         if (r.chance(0.06)) { p.push_back(T + "smh " + std::to_string(r.next() >> 1)); continue; }
         if (have_ssm && r.chance(0.12)) { if (r.chance(0.6)) p.push_back(T + "evsm"); else { slot_kind[sl] = 1; p.push_back(T + "mk " + std::to_string(sl) + " thdm_ssm " + std::to_string(r.next() >> 1)); } continue; }
         switch (what) {
         case 0: { const int kind = r.chance(0.5) ? 1 : 0; slot_kind[sl] = kind; if (r.chance(0.12)) p.push_back(T + "mk " + std::to_string(sl) + (kind ? " thdm_edge " : " mssm_edge ") + std::to_string(r.next() >> 1));
                   else p.push_back(T + "mk " + std::to_string(sl) + (r.chance(0.25) ? (kind ? " cthdm " : " cmssm ") : (kind ? " thdm " : " mssm ")) + point_arg(kind)); } break;
         case 1: { // copy
            if (r.chance(0.7)) { const int k = (int)r.below(nshared); slot_kind[sl] = shared_kind[k]; p.push_back(T + "cp " + std::to_string(sl) + " s " + std::to_string(k)); }
            else { const int j = (int)r.below(NSLOTS); if (slot_kind[j] >= 0 && j != sl) { slot_kind[sl] = slot_kind[j]; p.push_back(T + "cp " + std::to_string(sl) + " p " + std::to_string(j)); } else { slot_kind[sl] = 0; p.push_back(T + "mk " + std::to_string(sl) + " mssm " + std::to_string(r.next() >> 1)); } }
         } break;
         case 2: { // evaluate
            const bool on_shared = r.chance(flavour == 1 ? 0.9 : 0.5);
            if (on_shared) { const int k = (int)r.below(nshared); p.push_back(T + "ev " + fn_for(shared_kind[k]) + " s " + std::to_string(k)); }
            else {
               int j = -1; for (int tries = 0; tries < 4 && j < 0; ++tries) { const int c = (int)r.below(NSLOTS); if (slot_kind[c] >= 0) j = c; }
               if (j < 0) { const int k = (int)r.below(nshared); p.push_back(T + "ev " + fn_for(shared_kind[k]) + " s " + std::to_string(k)); }
               else p.push_back(T + "ev " + fn_for(slot_kind[j]) + " p " + std::to_string(j));
            }
         } break;
         case 3: { if (r.chance(0.6)) p.push_back(T + "pr s " + std::to_string(r.below(nshared))); else { int j = -1; for (int c = 0; c < NSLOTS; ++c) if (slot_kind[c] >= 0) j = c; if (j >= 0) p.push_back(T + "pr p " + std::to_string(j)); else p.push_back(T + "pr s 0"); } } break;
         case 4: {
                   if (!sm_seeds.empty() && r.chance(0.3)) p.push_back(T + "sm " + std::to_string(sm_seeds[r.below(sm_seeds.size())]) + " " + std::to_string(r.below(3)));
                   else { const uint64_t sd = r.next() >> 1; sm_seeds.push_back(sd); p.push_back(T + "sm " + std::to_string(sd)); } } break;
         case 5: { if (g_corpus.empty()) { p.push_back(T + "sm " + std::to_string(r.next() >> 1)); break; } const uint64_t idx = r.below(g_corpus.size()); slot_kind[sl] = g_corpus[idx].type == "thdm" ? 1 : 0; p.push_back(T + "mk " + std::to_string(sl) + " slha " + std::to_string(idx)); } break;
         case 7: { // change a model the task owns (often a copy of a shared model that other tasks are reading) and recalculate
            int j = -1; for (int tries = 0; tries < 4 && j < 0; ++tries) { const int c = (int)r.below(NSLOTS); if (slot_kind[c] >= 0) j = c; }
            if (j < 0) { const int k = (int)r.below(nshared); slot_kind[sl] = shared_kind[k]; p.push_back(T + "cp " + std::to_string(sl) + " s " + std::to_string(k)); j = sl; }
            p.push_back(T + "mu " + std::to_string(j) + " " + std::to_string(r.below(90)) + " " + std::to_string(r.next() >> 1));
         } break;
         case 8: p.push_back(T + "ff " + std::to_string(r.next() >> 1)); break;
         default: p.push_back(T + "ev " + hammer_fn + " s " + std::to_string(hammer_k)); break;
         }
      }
   }
   return p;
}

// --------------------------------------------------------------- execution
struct RunOut {
   std::string sig, detail; uint64_t hash = 0; thrsim::Result sim; uint64_t ops = 0; uint64_t seq_events = 0; int ntasks = 0; bool discarded = false;
   std::map<std::string, uint64_t> cover; // op kind x target coverage
};

struct TaskArgs { const Plan* plan; std::vector<std::vector<OpResult>>* results; std::vector<std::vector<std::string>>* modified; };

void task_body(int me, void* a)
{
   TaskArgs& ta = *(TaskArgs*)a;
   Context ctx;
   const auto& prog = ta.plan->tasks[me];
   for (size_t i = 0; i < prog.size(); ++i) {
      thrsim::op_boundary((int)i);
      (*ta.results)[me][i] = exec_op(ctx, prog[i], (*ta.modified)[me]);
   }
   thrsim::op_boundary((int)prog.size());
}

std::string op_name(const std::vector<std::string>& t) { return t[0] == "ev" ? t[1] : t[0] == "mk" ? "construct_" + t[2] + (t.size() > 4 ? "_neighbour_point" : "") : t[0] == "cp" ? "copy" : t[0] == "pr" ? "operator<<" : t[0] == "sm" ? "sm_layer" : t[0] == "ff" ? "loop_functions" : t[0] == "smh" ? "sm_object_history" : t[0] == "evsm" ? "shared_sm_getters" : t[0] == "mu" ? "mutate_own_model" : t[0]; }

RunOut run_plan(const std::vector<std::string>& lines, uint64_t run_index)
{
   RunOut out;
   Plan plan = parse_plan(lines);
   const int nt = (int)plan.tasks.size();
   out.ntasks = nt;
   if (nt == 0) return out;
   g_prog.set(run_index, 0, "setup");
   // edge points named by the plan are located first (bisection with the library, main thread)
   g_prog.set(run_index, 0, "edge-search");
   {
      auto want = [&](const std::string& kind, uint64_t arg) {
         if (kind == "mssm_edge" && !g_edge_mssm.count(arg)) g_edge_mssm[arg] = edge_mssm_point(arg);
         if (kind == "thdm_edge" && !g_edge_thdm.count(arg)) g_edge_thdm[arg] = edge_thdm_point(arg);
      };
      for (auto& sh : plan.shared) want(sh.first, sh.second);
      for (auto& task : plan.tasks) for (auto& op : task) if (op.size() >= 4 && op[0] == "mk") want(op[2], (uint64_t)std::strtoull(op[3].c_str(), nullptr, 0));
   }
   g_prog.set(run_index, 0, "setup");
   if (g_shared_sm) { ops::destroy(g_shared_sm); g_shared_sm = nullptr; }
   if (g_shared_sm_pristine) { ops::destroy(g_shared_sm_pristine); g_shared_sm_pristine = nullptr; }
   if (plan.shared_sm_seed) { g_shared_sm = ops::make_shared_sm(plan.shared_sm_seed); g_shared_sm_pristine = ops::make_shared_sm(plan.shared_sm_seed); g_shared_sm_bytes = snapshot_bytes(g_shared_sm, ops::sizeof_sm()); }
   // shared models are built by the main thread before any task starts
   for (int k = 0; k < NSHARED; ++k) { g_shared[k].reset(); g_shared_snap[k] = SharedSnap(); }
   for (size_t k = 0; k < plan.shared.size() && k < (size_t)NSHARED; ++k) {
      if (plan.shared[k].first.empty()) continue;
      try { build_model(g_shared[k], plan.shared[k].first, plan.shared[k].second); } catch (...) { g_shared[k].reset(); }
      if (!g_shared[k].empty()) {
         // the reference state comes from a TWIN built from the same recipe: no getter, print or evaluation touches the
         // shared object itself before the tasks start (a lazily filled internal cache must still be cold then)
         g_shared_snap[k].bytes = raw_bytes(g_shared[k]);
         Model twin;
         try { build_model(twin, plan.shared[k].first, plan.shared[k].second); } catch (...) { twin.reset(); }
         if (!twin.empty()) {
            g_shared_snap[k].getters = getters_of(twin);
            g_shared_snap[k].text = twin.m ? ops::print_mssm(*twin.m) : ops::print_thdm(*twin.t);
            twin.reset();
         } else {
            g_shared_snap[k].getters = getters_of(g_shared[k]);
            g_shared_snap[k].text = g_shared[k].m ? ops::print_mssm(*g_shared[k].m) : ops::print_thdm(*g_shared[k].t);
         }
         g_shared[k].obs = g_shared_snap[k].getters;
      }
   }
   uint64_t total_ops = 0;
   for (auto& t : plan.tasks) total_ops += t.size();
   out.ops = total_ops;
   plan.cfg.est_events = std::max<uint64_t>(20000, total_ops * 9000);

   // 1. the simulated concurrent execution
   std::vector<std::vector<OpResult>> conc(nt), seq(nt), alt(nt);
   std::vector<std::vector<std::string>> mod_c(nt), mod_s(nt), mod_a(nt);
   for (int i = 0; i < nt; ++i) { conc[i].resize(plan.tasks[i].size()); seq[i].resize(plan.tasks[i].size()); alt[i].resize(plan.tasks[i].size()); }
   TaskArgs ta{&plan, &conc, &mod_c};
   g_prog.set(run_index, 1, "simulated");
   // uninitialised heap memory reads 0xFF.. (NaN as a double) in the simulated execution, 0x00.. in the program-order
   // reference and 0x7B.. in the alternative one: a result computed from never-written heap memory cannot agree
   thrsim::set_malloc_fill(0xFF);
   thrsim::run_tasks(nt, task_body, &ta, plan.cfg);
   thrsim::set_malloc_fill(0x00);
   out.sim = thrsim::result();

   // 2. sequential references on this thread, no simulator: program order ...
   g_prog.set(run_index, 2, "sequential");
   thrsim::reset_sequential_events();
   g_check_copy = true;
   for (int i = 0; i < nt; ++i) { Context ctx; for (size_t k = 0; k < plan.tasks[i].size(); ++k) seq[i][k] = exec_op(ctx, plan.tasks[i][k], mod_s[i]); }
   g_check_copy = false;
   out.seq_events = thrsim::sequential_events();
   // ... and either reverse task order, or every operation twice in a row
   thrsim::set_malloc_fill(0x7B);
   g_prog.set(run_index, 3, "sequential-alt");
   g_inject_stale_thread_state = true; g_inject_counter = 0; // (a function of the plan only, not of the run index: replays must see the same values)
   struct StaleOff { ~StaleOff() { g_inject_stale_thread_state = false; errno = 0; std::feclearexcept(FE_ALL_EXCEPT); } } stale_off;
   if (plan.seq_variant == 0) {
      // reverse task order, and inside each task every maximal run of consecutive read-only operations
      // (evaluate / print / SM layer) in reverse order: read-only operations commute, so every result
      // must be the same -- this is the "does not depend on what was computed before" clause inside one thread
      auto read_only = [](const std::vector<std::string>& op) { return op[0] == "ev" || op[0] == "pr" || op[0] == "sm" || op[0] == "ff" || op[0] == "smh" || op[0] == "evsm"; };
      for (int i = nt - 1; i >= 0; --i) {
         Context ctx;
         const auto& prog = plan.tasks[i];
         size_t k = 0;
         while (k < prog.size()) {
            if (!read_only(prog[k])) { alt[i][k] = exec_op(ctx, prog[k], mod_a[i]); ++k; continue; }
            size_t e = k;
            while (e < prog.size() && read_only(prog[e])) ++e;
            for (size_t j = e; j-- > k;) alt[i][j] = exec_op(ctx, prog[j], mod_a[i]);
            k = e;
         }
      }
   } else {
      for (int i = 0; i < nt; ++i) {
         Context ctx;
         for (size_t k = 0; k < plan.tasks[i].size(); ++k) {
            const auto& op = plan.tasks[i][k];
            OpResult first = exec_op(ctx, op, mod_a[i]);
            if (op[0] == "ev" || op[0] == "pr" || op[0] == "sm" || op[0] == "ff" || op[0] == "smh" || op[0] == "evsm") { // repeatable without changing the context
               OpResult second = exec_op(ctx, op, mod_a[i]);
               if (!(first == second) && out.sig.empty()) { out.sig = "mismatch:repeat:" + op_name(op); out.detail = "task " + std::to_string(i) + " op " + std::to_string(k) + ": two calls in a row returned different results"; }
            }
            alt[i][k] = first;
         }
      }
   }

   // ---- oracles
   sim::Fnv h; h.u64(out.sim.events); h.u64(out.sim.trace_hash);
   for (int i = 0; i < nt; ++i) for (auto& r : conc[i]) { h.u64(r.bits); h.str(r.exc); }
   out.hash = h.h;
   for (int i = 0; i < nt; ++i) for (size_t k = 0; k < plan.tasks[i].size(); ++k) {
      const auto& op = plan.tasks[i][k];
      const std::string target = (op[0] == "ev" && op.size() > 2) ? op[2] : (op[0] == "pr" && op.size() > 1) ? op[1] : (op[0] == "cp" && op.size() > 2) ? op[2] : "-";
      out.cover[op_name(op) + "|" + (target == "s" ? "shared" : target == "p" ? "private" : "none") + "|" + (conc[i][k].skipped ? "skipped" : conc[i][k].exc.empty() ? "value" : conc[i][k].exc)]++;
   }
   if (out.sim.unsupported_sync) { out.discarded = true; return out; }
   // (1) no data race
   if (!out.sim.races.empty()) {
      const thrsim::Race& rc = out.sim.races[0];
      std::string a = rc.fn_a, b = rc.fn_b; if (b < a) std::swap(a, b);
      auto shorten = [](std::string s) {
         size_t q; while ((q = s.find("(anonymous namespace)::")) != std::string::npos) s.erase(q, 23);
         const size_t p = s.find('('); if (p != std::string::npos) s = s.substr(0, p);
         const size_t a = s.find('<'); if (a != std::string::npos) s = s.substr(0, a);
         for (auto& c : s) if (c == ' ') c = '_';
         return s; };
      out.sig = "race:" + shorten(rc.where) + ":" + shorten(a) + "|" + shorten(b);
      char buf[600];
      std::snprintf(buf, sizeof buf, "%s of %u bytes at %s by task %d (op %d, in %s) is not ordered with earlier %s by task %d (op %d, in %s); %zu distinct racing pairs in this run",
                    rc.write_b ? "write" : "read", rc.size, rc.where.c_str(), rc.task_b, rc.op_b, rc.fn_b.c_str(), rc.write_a ? "write" : "read", rc.task_a, rc.op_a, rc.fn_a.c_str(), out.sim.races.size());
      out.detail = buf;
      return out;
   }
   if (!out.sig.empty()) return out; // repeat mismatch found above
   // (2) sequential equivalence, bit for bit
   for (int i = 0; i < nt; ++i) for (size_t k = 0; k < plan.tasks[i].size(); ++k) {
      const auto& op = plan.tasks[i][k];
      if (!(seq[i][k] == alt[i][k])) { out.sig = "mismatch:order:" + op_name(op); out.detail = "task " + std::to_string(i) + " op " + std::to_string(k) + ": result depends on what was evaluated before (" + (plan.seq_variant ? "repeat" : "reverse") + " order differs from program order)"; return out; }
      if (!(conc[i][k] == seq[i][k])) { out.sig = "mismatch:concurrent:" + op_name(op); out.detail = "task " + std::to_string(i) + " op " + std::to_string(k) + ": concurrent result " + sim::dstr([&] { double d; std::memcpy(&d, &conc[i][k].bits, 8); return d; }()) + "/" + conc[i][k].exc + " differs from sequential " + sim::dstr([&] { double d; std::memcpy(&d, &seq[i][k].bits, 8); return d; }()) + "/" + seq[i][k].exc; return out; }
   }
   // (3) argument preservation
   for (auto* mods : {&mod_c, &mod_s, &mod_a}) for (int i = 0; i < nt; ++i) if (!(*mods)[i].empty()) {
      const std::string& w = (*mods)[i][0];
      if (w.compare(0, 18, "history-dependent:") == 0) { out.sig = "mismatch:history:" + w.substr(18); out.detail = "an object answered differently from a fresh object holding the same parameter values (" + w.substr(18) + "), task " + std::to_string(i); }
      else if (w.compare(0, 11, "global_env:") == 0) { out.sig = "modified:" + w; out.detail = "an operation left process/thread-global state changed (" + w.substr(11) + "), task " + std::to_string(i); }
      else if (w.compare(0, 13, "copy-differs:") == 0) { out.sig = "mismatch:copy:" + w.substr(13); out.detail = w.substr(13) + " evaluated on a fresh copy of the model differs from the value on the original, task " + std::to_string(i); }
      else { out.sig = "modified:" + w; out.detail = "the model passed to " + w + " changed (byte image differs after the call), task " + std::to_string(i); }
      return out;
   }
   if (g_shared_sm && snapshot_bytes(g_shared_sm, ops::sizeof_sm()) != g_shared_sm_bytes && g_shared_sm_pristine && ops::sm_getters(*g_shared_sm_pristine) == ops::sm_getters(*g_shared_sm)) ++g_repr_only_changes;
   else if (g_shared_sm && snapshot_bytes(g_shared_sm, ops::sizeof_sm()) != g_shared_sm_bytes) { out.sig = "modified:shared_sm"; out.detail = "the SM object shared by the tasks differs from its state before the run (byte image)"; return out; }
   for (int k = 0; k < NSHARED; ++k) if (!g_shared[k].empty()) {
      if (raw_bytes(g_shared[k]) != g_shared_snap[k].bytes && getters_of(g_shared[k]) == g_shared_snap[k].getters) ++g_repr_only_changes;
      if (getters_of(g_shared[k]) != g_shared_snap[k].getters ||
          (g_shared[k].m ? ops::print_mssm(*g_shared[k].m) : ops::print_thdm(*g_shared[k].t)) != g_shared_snap[k].text) {
         out.sig = "modified:shared_model"; out.detail = "shared model " + std::to_string(k) + " differs from its state before the run (getters or printed text)"; return out;
      }
   }
   return out;
}

// ---------------------------------------------------------------------------------------------
// One run = one fresh process.  The persistent worker only generates plans and spawns
// `thrsim <progress> <manifest> --exec-one <planfile> [--trace]` for each of them, for seeded runs
// and for replays alike, so that a run is a pure function of the plan text and the code: same
// start-up allocations, same (cold) function-local statics, same heap layout (address space
// randomisation is switched off for the child where the kernel allows it).
// ---------------------------------------------------------------------------------------------
int exec_one(const char* planfile, bool trace)
{
   const auto plan = sim::read_plan_file(planfile);
   std::string mode = "?";
   { const auto t = plan.empty() ? std::vector<std::string>() : sim::split(plan[0]); if (t.size() > 2 && t[0] == "#") mode = t[2]; }
   RunOut o = run_plan(plan, g_prog.cell ? g_prog.cell[0] : 0);
   sim::Stats c;
   c.add("runs"); c.add("strategy_" + mode); c.add("ops", o.ops); c.add("events", o.sim.events); c.add("sequential_events", o.seq_events);
   c.add("switches", o.sim.switches); c.add("preemptions_inside_operation", o.sim.preempt_in_op); c.add("conflict_switches", o.sim.conflict_switches);
   c.add("shared_accesses", o.sim.shared_accesses); c.add("guard_acquires", o.sim.guard_acquires); c.add("guard_waits", o.sim.guard_waits);
   c.add("mutex_locks", o.sim.mutex_locks); c.add("mutex_waits", o.sim.mutex_waits); c.add("atomic_ops", o.sim.atomic_ops); c.add("once_calls", o.sim.once_calls);
   c.add("clock_reads", o.sim.clock_reads); c.add("random_reads", o.sim.random_reads);
   c.add("tasks_" + std::to_string(o.ntasks)); c.add("probe_edge_points_located_by_bisection", g_edge_found);
   c.add("oracle_byte_image_changed_but_all_getters_equal", g_repr_only_changes);
   c.add("oracle_standard_stream_format_state_left_changed_observation_only", g_stream_format_changes);
   c.add("oracle_evaluations_repeated_in_a_fresh_thread", g_fresh_thread_evals); c.add("oracle_evaluations_repeated_on_a_fresh_copy", g_copy_evals); c.add("oracle_operations_with_stale_errno_and_fp_flags_injected", g_stale_injections);
   if (o.discarded) c.add("discarded_unsupported_sync");
   if (o.sim.preempt_in_op > 0 && o.ntasks >= 2) c.add("runs_with_preemption_inside_operation");
   for (size_t i = 0; i < o.sim.probe_hits.size() && i < g_probe_owner.size(); ++i)
      if (o.sim.probe_hits[i]) { c.add(std::string("probe_") + PROBE_NAMES[g_probe_owner[i]], o.sim.probe_hits[i]); }
   { std::set<int> seen; for (size_t i = 0; i < o.sim.probe_hits.size() && i < g_probe_owner.size(); ++i) if (o.sim.probe_hits[i] && seen.insert(g_probe_owner[i]).second) c.add(std::string("proberuns_") + PROBE_NAMES[g_probe_owner[i]]); }
   for (auto& kv : c.c) std::printf("K %s %" PRIu64 "\n", kv.first.c_str(), kv.second);
   for (auto& kv : o.cover) std::printf("C %s %" PRIu64 "\n", kv.first.c_str(), kv.second);
   std::printf("H %016" PRIx64 " %016" PRIx64 " %d\n", o.hash, o.sim.interleave_hash, (o.sim.preempt_in_op > 0 && o.ntasks >= 2) ? 1 : 0);
   if (trace) {
      if (!o.detail.empty()) std::printf("DETAIL %s\n", o.detail.c_str());
      for (auto& rc : o.sim.races) {
         std::printf("TRACE race: %s %s in [%s] (task %d op %d) vs %s in [%s] (task %d op %d)\n", rc.where.c_str(), rc.write_b ? "write" : "read", rc.fn_b.c_str(), rc.task_b, rc.op_b, rc.write_a ? "write" : "read", rc.fn_a.c_str(), rc.task_a, rc.op_a);
         std::string st = "TRACE   stack of the later access:";
         for (auto pc : rc.stack_b) st += " <- " + thrsim::symbolize(pc).substr(0, 80);
         std::printf("%s\n", st.c_str());
      }
      std::string tr = "TRACE schedule (task:events) =";
      for (size_t i = 0; i < o.sim.trace.size() && i < 400; ++i) tr += " " + std::to_string(o.sim.trace[i].first) + ":" + std::to_string(o.sim.trace[i].second);
      if (o.sim.trace.size() > 400) tr += " ... (" + std::to_string(o.sim.trace.size()) + " segments)";
      std::printf("%s\n", tr.c_str());
      std::printf("TRACE events=%" PRIu64 " switches=%" PRIu64 " preempt_in_op=%" PRIu64 " trace_hash=%016" PRIx64 " tasks=%d\n", o.sim.events, o.sim.switches, o.sim.preempt_in_op, o.sim.trace_hash, o.ntasks);
   }
   std::printf("S %s\n", o.sig.empty() ? "OK" : o.sig.c_str());
   std::fflush(stdout);
   return 0;
}

struct ChildResult { std::string sig = "OK"; uint64_t hash = 0, ihash = 0; bool ih_flag = false; std::vector<std::string> passthrough; bool died = false; };

ChildResult spawn_run(char** argv, const std::string& planfile, bool trace, uint64_t run_index, sim::Stats& st, std::map<std::string, uint64_t>& cover)
{
   ChildResult r;
   int fd[2];
   if (pipe(fd) != 0) { r.sig = "harness:pipe"; return r; }
   g_prog.set(run_index, 0, "spawn");
   std::fflush(stdout);
   const pid_t pid = fork();
   if (pid == 0) {
      close(fd[0]);
      dup2(fd[1], 1);
      close(fd[1]);
      personality(ADDR_NO_RANDOMIZE); // best effort
      { struct rlimit rl; rl.rlim_cur = 300; rl.rlim_max = 330; setrlimit(RLIMIT_CPU, &rl); } // a run that spins without reaching an instrumented event ends with SIGXCPU (CPU time, not wall time)
      const char* args[8] = {argv[0], argv[1], argv[2], "--exec-one", planfile.c_str(), trace ? "--trace" : nullptr, nullptr, nullptr};
      execv("/proc/self/exe", (char* const*)args);
      _exit(127);
   }
   close(fd[1]);
   std::string msg; char buf[8192]; ssize_t n;
   while ((n = read(fd[0], buf, sizeof buf)) > 0) msg.append(buf, (size_t)n);
   close(fd[0]);
   int status = 0;
   waitpid(pid, &status, 0);
   bool have_sig = false;
   size_t b0 = 0;
   while (b0 < msg.size()) {
      size_t e = msg.find('\n', b0); if (e == std::string::npos) e = msg.size();
      const std::string l = msg.substr(b0, e - b0); b0 = e + 1;
      if (l.size() < 3) continue;
      if ((l[0] == 'K' || l[0] == 'C') && l[1] == ' ') {
         const size_t sp = l.rfind(' ');
         const std::string key = l.substr(2, sp - 2); const uint64_t v = std::strtoull(l.c_str() + sp + 1, nullptr, 10);
         if (l[0] == 'K') st.add(key, v); else cover[key] += v;
      } else if (l[0] == 'H' && l[1] == ' ') {
         unsigned long long h1 = 0, h2 = 0; int flag = 0;
         std::sscanf(l.c_str() + 2, "%llx %llx %d", &h1, &h2, &flag);
         r.hash = h1; r.ihash = h2; r.ih_flag = flag != 0;
      } else if (l[0] == 'S' && l[1] == ' ') { r.sig = l.substr(2); have_sig = true; }
      else if (l.compare(0, 6, "TRACE ") == 0 || l.compare(0, 7, "DETAIL ") == 0) r.passthrough.push_back(l);
   }
   if (!(WIFEXITED(status) && WEXITSTATUS(status) == 0) || !have_sig) {
      // same form as the parent's attribution of a dead worker: death:<phase>:<cause>
      const std::string phase((const char*)(g_prog.cell + 4));
      if (WIFSIGNALED(status)) r.sig = "death:" + phase + ":signal" + std::to_string(WTERMSIG(status));
      else r.sig = "death:" + phase + ":exit" + std::to_string(WIFEXITED(status) ? WEXITSTATUS(status) : -1);
      r.died = true;
      st.add("runs");
   }
   return r;
}

} // namespace

int main(int argc, char** argv)
{
   g_prog.open(argc > 1 ? argv[1] : "");
   std::setvbuf(stdout, nullptr, _IOLBF, 0);
   if (argc > 2) load_corpus(argv[2]);
   thrsim::init();
   // diagnostics of the library (WARNING/ERROR macros) are discarded
   struct NullBuf : std::streambuf { int_type overflow(int_type c) override { return traits_type::not_eof(c); } std::streamsize xsputn(const char*, std::streamsize n) override { return n; } };
   static NullBuf nullbuf;
   std::cerr.rdbuf(&nullbuf);
   if (argc > 4 && std::string(argv[3]) == "--exec-one") {
      // probe address ranges come from the persistent worker (the binary is not position independent)
      if (const char* e = getenv("THRSIM_PROBES")) {
         std::vector<std::pair<uintptr_t, uintptr_t>> ranges;
         for (auto& tok : sim::split(e)) {
            unsigned long long lo = 0, hi = 0; int owner = 0;
            if (std::sscanf(tok.c_str(), "%llx:%llx:%d", &lo, &hi, &owner) == 3) { ranges.push_back({(uintptr_t)lo, (uintptr_t)hi}); g_probe_owner.push_back(owner); }
         }
         thrsim::set_probes(ranges);
      }
      return exec_one(argv[4], argc > 5 && std::string(argv[5]) == "--trace");
   }
   {
      std::string env;
      int n = 0;
      for (int i = 0; i < N_PROBES; ++i)
         for (auto& r : thrsim::find_functions(PROBE_NAMES[i])) {
            if (n++ >= 32) break;
            char b[96]; std::snprintf(b, sizeof b, "%llx:%llx:%d ", (unsigned long long)r.first, (unsigned long long)r.second, i);
            env += b;
         }
      setenv("THRSIM_PROBES", env.c_str(), 1);
   }
   if (argc < 3) { std::fprintf(stderr, "usage: thrsim <progress file> <corpus manifest>\n"); return 2; }

   FILE* ihf = nullptr;
   std::string planfile = "/tmp/thrsim-plan-" + std::to_string(getpid()) + ".txt";
   if (argv[1][0]) { ihf = std::fopen((std::string(argv[1]) + ".ih").c_str(), "wb"); planfile = std::string(argv[1]) + ".plan"; }

   std::string line;
   while (sim::read_line(line)) {
      const auto t = sim::split(line);
      if (t.empty()) continue;
      if (t[0] == "RUNS") {
         const uint64_t seed = std::strtoull(t[1].c_str(), nullptr, 0), first = std::strtoull(t[2].c_str(), nullptr, 0), count = std::strtoull(t[3].c_str(), nullptr, 0);
         sim::Stats st; std::map<std::string, uint64_t> cover;
         for (uint64_t i = first; i < first + count; ++i) {
            const auto plan = gen_plan(sim::run_seed(seed, ENGINE_ID, i), nullptr);
            if (FILE* f = std::fopen(planfile.c_str(), "w")) { for (auto& l : plan) std::fprintf(f, "%s\n", l.c_str()); std::fclose(f); }
            ChildResult r = spawn_run(argv, planfile, false, i, st, cover);
            if (r.ih_flag && ihf) std::fwrite(&r.ihash, 8, 1, ihf);
            if (r.sig != "OK") { std::printf("CAND run=%" PRIu64 " sig=%s\n", i, r.sig.c_str()); st.add("candidates"); }
            if ((i & 15) == 0) std::printf("HASH run=%" PRIu64 " hash=%016" PRIx64 "\n", i, r.hash);
         }
         if (ihf) std::fflush(ihf);
         std::string cj = "{"; bool fst = true;
         for (auto& kv : cover) { if (!fst) cj += ","; fst = false; cj += "\"" + sim::jesc(kv.first) + "\":" + std::to_string(kv.second); }
         cj += "}";
         std::printf("STATS {\"counters\":%s,\"cover\":%s}\nDONE\n", st.json().c_str(), cj.c_str());
      } else if (t[0] == "DUMP" && t.size() >= 3) {
         for (auto& l : gen_plan(sim::run_seed(std::strtoull(t[1].c_str(), nullptr, 0), ENGINE_ID, std::strtoull(t[2].c_str(), nullptr, 0)), nullptr)) std::printf("OP %s\n", l.c_str());
         std::printf("DONE\n");
      } else if (t[0] == "EXEC" && t.size() >= 2) {
         sim::Stats st; std::map<std::string, uint64_t> cover;
         ChildResult r = spawn_run(argv, t[1], true, 0, st, cover);
         for (auto& l : r.passthrough) std::printf("%s\n", l.c_str());
         if (r.died) std::printf("DETAIL the run ended the process: %s\n", r.sig.c_str());
         std::printf("RESULT sig=%s hash=%016" PRIx64 " events=%" PRIu64 "\nDONE\n", r.sig.c_str(), r.hash, st.c["events"]);
      } else if (t[0] == "QUIT") break;
      else std::printf("NOTE unknown command: %s\nDONE\n", t[0].c_str());
   }
   if (ihf) std::fclose(ihf);
   std::remove(planfile.c_str());
   return 0;
}
