// Operation kernels of the thrsim workload.  ops.cpp is compiled WITH the
// -fsanitize=thread call-outs (like the library), so that everything done to
// library objects here -- construction, copying, evaluation, printing -- is
// visible to the scheduler and the race detector.
#ifndef THRSIM_OPS_HPP
#define THRSIM_OPS_HPP

#include <cstdint>
#include <string>

namespace gm2calc { class MSSMNoFV_onshell; class THDM; class SM; }

namespace ops {

struct MssmPoint {
   int mode;            ///< 0: on-shell input + calculate_masses, 1: pole masses + convert_to_onshell
   bool force_output;
   double TB, Mu, M1, M2, M3, MA, scale, Au33, Ad33, Ae33, Ae22;
   double mq2[3], mu2[3], md2[3], ml2[3], me2[3];
   double pole_scale;   ///< mode 1: factor applied to the example pole masses
   double MW, MZ;
   double alpha_MZ;     ///< alpha_em(MZ), 0 = the usual value
   double precision; unsigned max_iter;
};

struct ThdmPoint {
   bool gauge;          ///< gauge basis (else mass basis)
   int yukawa_type;     ///< 1..6
   bool force_output, running_couplings;
   double mh, mH, mA, mHp, sba, l6, l7, tb, m122, zeta_u, zeta_d, zeta_l;
   double lambda[7];
   double delta_scale, pi_scale;
   double alpha_em_mz, mt, mb, mtau, mhSM;
};

/// all of these may throw gm2calc::Error (the caller classifies)
gm2calc::MSSMNoFV_onshell* make_mssm(const MssmPoint&);
gm2calc::THDM* make_thdm(const ThdmPoint&);
/// build a model from SLHA text the way the command-line program does; exactly one of the outputs is set
void make_from_slha(const std::string& text, const std::string& type, gm2calc::MSSMNoFV_onshell** m, gm2calc::THDM** t);
gm2calc::MSSMNoFV_onshell* copy_mssm(const gm2calc::MSSMNoFV_onshell&);
gm2calc::THDM* copy_thdm(const gm2calc::THDM&);
void destroy(gm2calc::MSSMNoFV_onshell*);
void destroy(gm2calc::THDM*);
/// the same constructions through the C interface (gm2calc_mssmnofv_new + setters + calculate/convert,
/// gm2calc_thdm_new_with_*_basis); an error code is turned into the exception class it stands for
gm2calc::MSSMNoFV_onshell* make_mssm_c(const MssmPoint&);
gm2calc::THDM* make_thdm_c(const ThdmPoint&);
void destroy_c(gm2calc::MSSMNoFV_onshell*);
void destroy_c(gm2calc::THDM*);

int n_mssm_fns();
const char* mssm_fn_name(int);
double eval_mssm(int fn, const gm2calc::MSSMNoFV_onshell&);
int n_thdm_fns();
const char* thdm_fn_name(int);
double eval_thdm(int fn, const gm2calc::THDM&);

std::string print_mssm(const gm2calc::MSSMNoFV_onshell&);
std::string print_thdm(const gm2calc::THDM&);
/// all public zero-argument getters folded into a hash (argument preservation)
uint64_t getters_mssm(const gm2calc::MSSMNoFV_onshell&);
uint64_t getters_thdm(const gm2calc::THDM&);

/// SM layer and running masses: pure functions of the arguments
double sm_ops(double lambda, double A, double rho, double eta, double mz, double alpha_s);

/// SM objects as such: a seeded history of setters and derived getters on a private SM object; returns the hash of all
/// getters at the end and reports whether a FRESH object given the same final parameter values answers identically
/// (a getter may not depend on which getters and setters were called before)
uint64_t sm_history(uint64_t seed, bool* same_as_fresh);
/// an SM object shared between tasks (built by the main thread, no derived getter called on it before the tasks start)
gm2calc::SM* make_shared_sm(uint64_t seed);
void destroy(gm2calc::SM*);
uint64_t sm_getters(const gm2calc::SM&);   ///< all getters, raw and derived
size_t sizeof_sm();
/// THDM construction from a given (possibly shared) SM object
gm2calc::THDM* make_thdm_with_sm(const ThdmPoint&, const gm2calc::SM&);

/// the caller changes a model it owns (one parameter, then recalculation); returns the getters hash
uint64_t mutate_mssm(gm2calc::MSSMNoFV_onshell&, int what, double u);
uint64_t mutate_thdm(gm2calc::THDM&, int what, double u);
/// loop functions and special functions called directly
double ff_ops(double x, double y, double z);

size_t sizeof_mssm();
size_t sizeof_thdm();

} // namespace ops

#endif
